// Instantiation driver: names every function-template instantiation the contracts quantify over, so that
// clang's AST contains their bodies.  Compiled -fsyntax-only (never linked or run) with exactly the flags
// and macros of the configuration under extraction; overload resolution and instantiation are the compiler's.
#include <cstdlib>   // Aligned_allocator.hpp uses std::aligned_alloc (C++17 branch) without including <cstdlib> itself: a compile matter (C19), worked around here
#include <avel/Avel.hpp>
#include <avel/Aligned_allocator.hpp>
#include <avel/Cache.hpp>

namespace avel_verif_driver {

    using avel::extract; using avel::insert; using avel::bit_shift_left; using avel::bit_shift_right;
    using avel::rotl; using avel::rotr; using avel::load; using avel::aligned_load; using avel::store; using avel::aligned_store;

    // ---- lane access: extract<I>, insert<I> for I in 0..W-1 (vectors and masks)
    template<class V, class M, unsigned I>
    struct Lanes {
        static void go(V v, M m, typename V::scalar x) {
            (void)extract<I>(v); (void)insert<I>(v, x);
            (void)extract<I>(m); (void)insert<I>(m, true);
            Lanes<V, M, I - 1>::go(v, m, x);
        }
    };
    template<class V, class M>
    struct Lanes<V, M, 0> {
        static void go(V v, M m, typename V::scalar x) {
            (void)extract<0>(v); (void)insert<0>(v, x);
            (void)extract<0>(m); (void)insert<0>(m, true);
        }
    };

    // ---- compile-time shifts S in 0..bits, rotations S in 0..bits-1 and the forwarding overload for S >= bits
    template<class V, unsigned S>
    struct Shifts {
        static void go(V v) {
            (void)bit_shift_left<S>(v); (void)bit_shift_right<S>(v); (void)rotl<S>(v); (void)rotr<S>(v);
            Shifts<V, S - 1>::go(v);
        }
    };
    template<class V>
    struct Shifts<V, 0> {
        static void go(V v) {
            (void)bit_shift_left<0>(v); (void)bit_shift_right<0>(v); (void)rotl<0>(v); (void)rotr<0>(v);
        }
    };
    template<class V, unsigned B>
    void shifts(V v) {
        Shifts<V, B - 1>::go(v);
        (void)bit_shift_left<B>(v); (void)bit_shift_right<B>(v);
        (void)rotl<B>(v); (void)rotr<B>(v); (void)rotl<B + 1>(v); (void)rotr<B + 1>(v);
        (void)rotl<2 * B - 1>(v); (void)rotr<2 * B - 1>(v); (void)rotl<2 * B>(v); (void)rotr<2 * B>(v);
        (void)rotl<0xffffffffu>(v); (void)rotr<0xffffffffu>(v);
    }

    // ---- compile-time element counts N in 0..W for loads, stores, gathers, scatters
    template<class V, unsigned N>
    struct Mem {
        static void go(V v, typename V::scalar* p, const typename V::scalar* cp) {
            (void)load<V, N>(cp); (void)aligned_load<V, N>(cp);
            store<N>(p, v); aligned_store<N>(p, v);
            Mem<V, N - 1>::go(v, p, cp);
        }
    };
    template<class V>
    struct Mem<V, 0> {
        static void go(V v, typename V::scalar* p, const typename V::scalar* cp) {
            (void)load<V, 0>(cp); (void)aligned_load<V, 0>(cp);
            store<0>(p, v); aligned_store<0>(p, v);
        }
    };

    template<class V, class I, unsigned N>
    struct Gat {
        static void go(V v, I idx, typename V::scalar* p, const typename V::scalar* cp) {
            (void)avel::gather<V, N>(cp, idx);
            avel::scatter<N>(p, v, idx);
            Gat<V, I, N - 1>::go(v, idx, p, cp);
        }
    };
    template<class V, class I>
    struct Gat<V, I, 0> {
        static void go(V v, I idx, typename V::scalar* p, const typename V::scalar* cp) {
            (void)avel::gather<V, 0>(cp, idx);
            avel::scatter<0>(p, v, idx);
        }
    };

    template<class V, unsigned BITS>
    void int_vector() {
        V v{}; typename V::mask m{}; typename V::scalar x{};
        typename V::scalar buf[V::width];
        Lanes<V, typename V::mask, V::width - 1>::go(v, m, x);
        shifts<V, BITS>(v);
        Mem<V, V::width>::go(v, buf, buf);
    }

    template<class V>
    void float_vector() {
        V v{}; typename V::mask m{}; typename V::scalar x{};
        typename V::scalar buf[V::width];
        Lanes<V, typename V::mask, V::width - 1>::go(v, m, x);
        Mem<V, V::width>::go(v, buf, buf);
    }

    template<class V>
    void gathers() {
        V v{}; typename V::scalar buf[V::width];
        avel::Vector<typename avel::to_index_type<typename V::scalar>::type, V::width> idx{};
        Gat<V, decltype(idx), V::width>::go(v, idx, buf, buf);
    }

    template<avel::Cache_level L>
    void prefetches(const void* p, const int* pi, const double* pd, std::size_t n) {
        avel::prefetch_read<L>(p, n); avel::prefetch_write<L>(p, n);
        avel::prefetch_read<L, int>(pi, n); avel::prefetch_write<L, int>(pi, n);
        avel::prefetch_read<L, double>(pd, n); avel::prefetch_write<L, double>(pd, n);
    }

    template<class T, std::size_t A>
    void allocator(std::size_t n) {
        avel::Aligned_allocator<T, A> a;
        T* p = a.allocate(n);
        T* q = a.allocate(n, nullptr);
        a.deallocate(p, n); a.deallocate(q, n);
        (void)(a == a); (void)(a != a); (void)a.max_size();
    }

    struct alignas(16) Block16 { unsigned char b[16]; };
    struct alignas(64) Block64 { unsigned char b[64]; };

    void roots() {
        prefetches<avel::L1_CACHE>(nullptr, nullptr, nullptr, 0);
        prefetches<avel::L2_CACHE>(nullptr, nullptr, nullptr, 0);
        prefetches<avel::L3_CACHE>(nullptr, nullptr, nullptr, 0);
        allocator<char, 1>(0); allocator<char, 16>(0); allocator<char, 64>(0); allocator<char, 4096>(0);
        allocator<std::uint16_t, 2>(0); allocator<std::uint16_t, 32>(0);
        allocator<std::uint32_t, 4>(0); allocator<std::uint32_t, 64>(0);
        allocator<double, 8>(0); allocator<double, 128>(0);

        int_vector<avel::vec1x8u, 8>();   int_vector<avel::vec1x8i, 8>();
        int_vector<avel::vec1x16u, 16>(); int_vector<avel::vec1x16i, 16>();
        int_vector<avel::vec1x32u, 32>(); int_vector<avel::vec1x32i, 32>();
        int_vector<avel::vec1x64u, 64>(); int_vector<avel::vec1x64i, 64>();
        float_vector<avel::vec1x32f>();   float_vector<avel::vec1x64f>();
        gathers<avel::vec1x32u>(); gathers<avel::vec1x32i>(); gathers<avel::vec1x64u>(); gathers<avel::vec1x64i>();
        gathers<avel::vec1x32f>(); gathers<avel::vec1x64f>();
#if defined(AVEL_SSE2)
        int_vector<avel::vec16x8u, 8>();  int_vector<avel::vec16x8i, 8>();
        int_vector<avel::vec8x16u, 16>(); int_vector<avel::vec8x16i, 16>();
        int_vector<avel::vec4x32u, 32>(); int_vector<avel::vec4x32i, 32>();
        int_vector<avel::vec2x64u, 64>(); int_vector<avel::vec2x64i, 64>();
        float_vector<avel::vec4x32f>();   float_vector<avel::vec2x64f>();
        gathers<avel::vec4x32u>(); gathers<avel::vec4x32i>(); gathers<avel::vec2x64u>(); gathers<avel::vec2x64i>();
        gathers<avel::vec4x32f>(); gathers<avel::vec2x64f>();
#endif
#if defined(AVEL_AVX2)
        int_vector<avel::vec32x8u, 8>();   int_vector<avel::vec32x8i, 8>();
        int_vector<avel::vec16x16u, 16>(); int_vector<avel::vec16x16i, 16>();
        int_vector<avel::vec8x32u, 32>();  int_vector<avel::vec8x32i, 32>();
        int_vector<avel::vec4x64u, 64>();  int_vector<avel::vec4x64i, 64>();
        float_vector<avel::vec8x32f>();    float_vector<avel::vec4x64f>();
        gathers<avel::vec8x32u>(); gathers<avel::vec8x32i>(); gathers<avel::vec4x64u>(); gathers<avel::vec4x64i>();
        gathers<avel::vec8x32f>(); gathers<avel::vec4x64f>();
#endif
#if defined(AVEL_AVX512F)
        int_vector<avel::vec16x32u, 32>(); int_vector<avel::vec16x32i, 32>();
        int_vector<avel::vec8x64u, 64>();  int_vector<avel::vec8x64i, 64>();
        float_vector<avel::vec16x32f>();   float_vector<avel::vec8x64f>();
        gathers<avel::vec16x32u>(); gathers<avel::vec16x32i>(); gathers<avel::vec8x64u>(); gathers<avel::vec8x64i>();
        gathers<avel::vec16x32f>(); gathers<avel::vec8x64f>();
#endif
#if defined(AVEL_AVX512BW)
        int_vector<avel::vec64x8u, 8>();   int_vector<avel::vec64x8i, 8>();
        int_vector<avel::vec32x16u, 16>(); int_vector<avel::vec32x16i, 16>();
#endif
    }
}
