// Instantiation driver: names every function template instantiation the contracts quantify over,
// so that clang's AST contains their bodies.  Compiled -fsyntax-only, never linked or run.
#include <avel/Avel.hpp>
#include <avel/Aligned_allocator.hpp>
