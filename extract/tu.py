"""tu.py -- assemble a C translation unit from the extracted function database.

assemble(db, root, contracts, replace, harness) -> C text
  root      : cname of the function under contract
  contracts : {cname: {'clauses': text, 'loops': {n: text}}} for the root and for replaced callees
  replace   : set of cnames whose bodies are NOT included (they are replaced by their contract)
  harness   : C text of main()
"""
import re
from cxx2c import struct_text, Emitter


class ExtractionError(Exception):
    pass


def closure(db, root, replace=(), extra_roots=()):
    F = db['functions']
    seen = []
    seenset = set()
    globs = set()
    externs = set()

    def add_glob(g):
        if g in globs:
            return
        globs.add(g)
        gi = db['globals'].get(g)
        if gi is None:
            raise ExtractionError('global not extracted: ' + g)
        for c in gi['calls']:
            visit(c)
        for e in gi['externs']:
            externs.add(e)
        for gg in gi['globals']:
            add_glob(gg)

    def visit(cn):
        if cn in seenset:
            return
        f = F.get(cn)
        if f is None:
            raise ExtractionError('function not in database: ' + cn)
        if f.get('error'):
            raise ExtractionError('%s: %s' % (cn, f['error']))
        seenset.add(cn)
        if cn in replace and cn != root:
            seen.append(cn)
            return
        for g in f['globals']:
            add_glob(g)
        for e in f['externs']:
            externs.add(e)
        for c in f['calls']:
            visit(c)
        seen.append(cn)
    for r in extra_roots:
        visit(r)
    visit(root)
    return seen, sorted(globs), sorted(externs)


def fill(code, contract):
    clauses = (contract or {}).get('clauses', '')
    loops = (contract or {}).get('loops', {})
    code = code.replace('/*@CONTRACT@*/\n', clauses)

    def lp(m):
        return loops.get(int(m.group(1)), '')
    return re.sub(r'[ \t]*/\*@LOOP(\d+)@\*/\n', lp, code)


def assemble(db, root, contracts, replace=(), harness='', includes=('avm_base.h',), spec_includes=(), model_text=None, extra_roots=(), ghosts=()):
    fns, globs, externs = closure(db, root, replace, extra_roots)
    F = db['functions']
    out = []
    for inc in includes:
        out.append('#include "%s"' % inc)
    missing = []
    if model_text is not None:
        mt, missing = model_text([e for e in externs if e.startswith('_') or e.startswith('model_')])
        out.append(mt)
    out.append('/*@STRUCTS@*/')
    for inc in spec_includes:
        out.append('#include "%s"' % inc)
    for gl in ghosts:      # ghost globals of the contract (visible to the clauses of replaced callees)
        out.append(gl)
    dyn = []
    for g in globs:
        gi = db['globals'][g]
        if gi['init'] is not None:
            out.append('%s = %s;' % (gi['decl'], gi['init']))
        else:
            out.append('%s;' % gi['decl'])
            dyn.append(gi['dyn'])
    for cn in fns:
        f = F[cn]
        if cn in replace and cn != root:
            out.append(f['proto'][:-1] + '\n' + (contracts.get(cn) or {}).get('clauses', '') + ';')
        else:
            out.append(f['proto'])
    out.append('')
    for cn in fns:
        f = F[cn]
        if cn in replace and cn != root:
            continue
        out.append('/* %s  %s:%s */' % (f.get('name'), f.get('file'), f.get('line')))
        out.append(fill(f['code'], contracts.get(cn) if cn == root else None))
    out.append('void avel_static_init(void) {\n' + ''.join('  %s\n' % d for d in dyn) + '}\n')
    out.append(harness)
    text = '\n'.join(out) + '\n'
    # only the records this TU mentions (transitively), so that identical code gives identical text in every configuration
    S = db['structs']
    used = set()

    def need(nm):
        if nm in used or nm not in S:
            return
        used.add(nm)
        for f, t in S[nm]:
            need(re.sub(r'(\[\d+\])+$', '', t).rstrip('*').strip())
    for tok in set(re.findall(r'[A-Za-z_]\w*', text)):
        if tok in S:
            need(tok)
        elif tok.startswith('nondet_') and tok[7:] in S:
            need(tok[7:])
    sub = {k: S[k] for k in used}
    st = struct_text(sub) + ''.join('%s nondet_%s(void);\n' % (nm, nm) for nm in sorted(sub))
    text = text.replace('/*@STRUCTS@*/', st)
    return text, externs, missing
