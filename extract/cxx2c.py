#!/usr/bin/env python3
"""cxx2c -- mechanical extraction of AVEL functions from Clang's typed JSON AST to C.

Input : the output of
          clang++ <cfg flags> -fsyntax-only -Xclang -ast-dump=json -Xclang -ast-dump-filter=avel driver.cpp
Output: a function database (python dict, pickled by the caller): for every function of
        namespace avel that has a body and a mangled name (i.e. every non-dependent function,
        including template instantiations requested by the driver) the C text of the function,
        its prototype, the avel functions / external functions / globals / structs it uses and
        the meta data the contract generator matches on.

Rules (DESIGN.md 3.1): every AST node kind / cast kind / type spelling without a rule raises
Abort; the function is then recorded with 'error' and every caller inherits the error.  Nothing
is ever guessed or skipped silently.
"""
import json, re, sys, os

sys.setrecursionlimit(100000)


class Abort(Exception):
    pass


FUNC_KINDS = ('FunctionDecl', 'CXXMethodDecl', 'CXXConstructorDecl', 'CXXConversionDecl', 'CXXDestructorDecl')

PRIM = {
    'unsigned char': 'uint8_t', 'signed char': 'int8_t', 'char': 'char', 'unsigned short': 'uint16_t',
    'short': 'int16_t', 'unsigned int': 'uint32_t', 'int': 'int32_t', 'unsigned long': 'uint64_t',
    'long': 'int64_t', 'unsigned long long': 'unsigned long long', 'long long': 'long long',
    'bool': '_Bool', '_Bool': '_Bool', 'float': 'float', 'double': 'double', 'void': 'void',
    'unsigned __int128': 'unsigned __int128', '__int128': '__int128',
    'std::uint8_t': 'uint8_t', 'std::int8_t': 'int8_t', 'std::uint16_t': 'uint16_t', 'std::int16_t': 'int16_t',
    'std::uint32_t': 'uint32_t', 'std::int32_t': 'int32_t', 'std::uint64_t': 'uint64_t', 'std::int64_t': 'int64_t',
    'uint8_t': 'uint8_t', 'int8_t': 'int8_t', 'uint16_t': 'uint16_t', 'int16_t': 'int16_t',
    'uint32_t': 'uint32_t', 'int32_t': 'int32_t', 'uint64_t': 'uint64_t', 'int64_t': 'int64_t',
    'std::size_t': 'size_t', 'size_t': 'size_t', 'std::ptrdiff_t': 'int64_t', 'ptrdiff_t': 'int64_t',
    'std::uintptr_t': 'uint64_t', 'uintptr_t': 'uint64_t', 'std::intptr_t': 'int64_t', 'intptr_t': 'int64_t',
    '__mmask8': 'uint8_t', '__mmask16': 'uint16_t', '__mmask32': 'uint32_t', '__mmask64': 'uint64_t',
    '__uint128_t': 'unsigned __int128', '__int128_t': '__int128', 'unsigned': 'uint32_t',
    'long double': 'long double', 'std::nullptr_t': 'void*', 'nullptr_t': 'void*',
    '_MM_CMPINT_ENUM': 'int32_t', '_MM_MANTISSA_SIGN_ENUM': 'int32_t', '_MM_MANTISSA_NORM_ENUM': 'int32_t', '_MM_PERM_ENUM': 'int32_t',
    'Cache_level': 'uint8_t', 'avel::Cache_level': 'uint8_t', 'std::max_align_t': 'avm_max_align_t', 'max_align_t': 'avm_max_align_t',
    '__m128i': 'm128', '__m128': 'm128', '__m128d': 'm128', '__m256i': 'm256', '__m256': 'm256', '__m256d': 'm256',
    '__m512i': 'm512', '__m512': 'm512', '__m512d': 'm512',
    '__m128i_u': 'm128', '__m256i_u': 'm256', '__m512i_u': 'm512', '__m128_u': 'm128', '__m128d_u': 'm128',
    '__m256_u': 'm256', '__m256d_u': 'm256', '__m512_u': 'm512', '__m512d_u': 'm512',
}
SCAL = {'uint8_t': 'u8', 'int8_t': 'i8', 'uint16_t': 'u16', 'int16_t': 'i16', 'uint32_t': 'u32', 'int32_t': 'i32',
        'uint64_t': 'u64', 'int64_t': 'i64', 'float': 'f32', 'double': 'f64', '_Bool': 'b', 'char': 'c',
        'unsigned long long': 'ull', 'long long': 'll', 'size_t': 'sz'}
SIGNED_INT = {'int8_t': 8, 'int16_t': 16, 'int32_t': 32, 'int64_t': 64, 'long long': 64, 'char': 8}
INT_BITS = {'uint8_t': 8, 'int8_t': 8, 'uint16_t': 16, 'int16_t': 16, 'uint32_t': 32, 'int32_t': 32,
            'uint64_t': 64, 'int64_t': 64, 'unsigned long long': 64, 'long long': 64, 'size_t': 64, 'char': 8, '_Bool': 1}
VECSZ = {'long long': 8, 'double': 8, 'float': 4, 'int': 4, 'short': 2, 'char': 1, 'unsigned long long': 8,
         'unsigned int': 4, 'unsigned short': 2, 'unsigned char': 1, 'signed char': 1, 'long': 8, 'unsigned long': 8}


def load_docs(path):
    s = open(path).read()
    dec = json.JSONDecoder()
    i = 0
    L = len(s)
    docs = []
    while i < L:
        while i < L and s[i] in ' \n\r\t':
            i += 1
        if i >= L:
            break
        if s[i] != '{':
            j = s.find('\n', i)
            i = (j + 1) if j >= 0 else L
            continue
        d, j = dec.raw_decode(s, i)
        docs.append(d)
        i = j
    return docs


def split_top(s, sep=','):
    out = []
    depth = 0
    cur = ''
    for ch in s:
        if ch in '<([':
            depth += 1
        elif ch in '>)]':
            depth -= 1
        if ch == sep and depth == 0:
            out.append(cur)
            cur = ''
        else:
            cur += ch
    if cur.strip():
        out.append(cur)
    return [x.strip() for x in out]


def has_body(fd):
    return any(c.get('kind') == 'CompoundStmt' for c in fd.get('inner', []))


class Emitter:
    def __init__(self, docs):
        self.byid = {}
        self.parent = {}
        self.aliases = {}
        self.records = {}       # C struct name -> record node
        self.structs = {}       # C struct name -> [(field, ctype)]
        self.fieldinit = {}     # FieldDecl id -> node
        self.defs = {}          # mangled -> defining decl
        self.ctors = {}         # C struct name -> [ctor decls]
        self.last_file = None
        self.last_line = None
        self.locs = {}
        for d in docs:
            self.index(d, None)
        self.funcs = {}         # cname -> record
        self.globals = {}       # cname -> (decl text, init text or None, deps)
        self.static_init = []   # statements for avel_static_init
        self.cur = None
        self._register_records()

    # ------------------------------------------------------------------ indexing
    def _loc(self, l):
        if not isinstance(l, dict):
            return
        for k in ('spellingLoc', 'expansionLoc'):
            if k in l:
                self._loc(l[k])
        if 'file' in l:
            self.last_file = l['file']
        if 'line' in l:
            self.last_line = l['line']

    def index(self, n, par):
        if 'inner' in n:
            n['inner'] = [c for c in n['inner'] if not c.get('kind', '').endswith('Comment')]
        if 'loc' in n:
            self._loc(n['loc'])
        k = n.get('kind')
        if 'id' in n and k:
            old = self.byid.get(n['id'])
            if old is None or ('inner' in n and 'inner' not in old):
                self.byid[n['id']] = n
            self.parent[n['id']] = par
            if k in FUNC_KINDS or k in ('VarDecl',):
                self.locs[n['id']] = (self.last_file, self.last_line)
        if 'range' in n:
            self._loc(n['range'].get('begin'))
            self._loc(n['range'].get('end'))
        if k in ('TypeAliasDecl', 'TypedefDecl') and 'name' in n:
            t = n.get('type', {})
            self.aliases.setdefault(n['name'], t.get('desugaredQualType') or t.get('qualType'))
        if k in FUNC_KINDS and 'mangledName' in n and has_body(n):
            self.defs.setdefault(n['mangledName'], n)
        if k == 'FieldDecl':
            self.fieldinit[n['id']] = n
        for c in n.get('inner', []):
            self.index(c, n)

    def _register_records(self):
        for n in list(self.byid.values()):
            if n.get('kind') in ('ClassTemplateSpecializationDecl', 'CXXRecordDecl') and any(
                    c.get('kind') == 'FieldDecl' for c in n.get('inner', [])):
                try:
                    nm = self.rec_cname(n)
                except Abort:
                    continue
                if nm is None:
                    continue
                self.records.setdefault(nm, n)

    def rec_cname(self, rec):
        """C struct name of an avel record declaration (None if not one we model)."""
        name = rec.get('name')
        if rec.get('kind') == 'ClassTemplateSpecializationDecl':
            ta = [c for c in rec.get('inner', []) if c.get('kind') == 'TemplateArgument']
            args = []
            for a in ta:
                if 'type' in a:
                    args.append(a['type'].get('desugaredQualType') or a['type']['qualType'])
                elif 'value' in a:
                    args.append(str(a['value']))
                else:
                    raise Abort('template argument form in record ' + str(name))
            if name in ('Vector', 'Vector_mask', 'Denominator', 'div_type', 'Aligned_allocator'):
                return self.ctype_str('avel::%s<%s>' % (name, ', '.join(args)), register=False)
            return None
        return None

    # ------------------------------------------------------------------ types
    def ctype(self, tnode):
        if tnode is None:
            return 'void'
        t = tnode.get('desugaredQualType') or tnode.get('qualType')
        try:
            return self.ctype_str(t)
        except Abort:
            if tnode.get('qualType') and tnode.get('qualType') != t:
                return self.ctype_str(tnode['qualType'])
            raise

    def ctype_str(self, t, register=True):
        t = t.strip()
        t = re.sub(r'\s+', ' ', t)
        # trailing cv / ptr / ref
        m = re.match(r'^(.*?\S)\s*(&&|&|\*)\s*(const|volatile|__restrict)?$', t) if not t.endswith(']') else None
        if m and t.rstrip(' const').endswith('&&'):
            m = re.match(r'^(.*?\S)\s*(&&)\s*(const)?$', t)
        elif m:
            m = re.match(r'^(.*\S)\s*(&|\*)\s*(const|volatile|__restrict)?$', t)
        if m:
            return self.ctype_str(m.group(1), register) + '*'
        m = re.match(r'^(.*)\[(\d+)\]$', t)
        if m:
            return self.ctype_str(m.group(1), register) + '[%s]' % m.group(2)
        t = re.sub(r'^(const|volatile) ', '', t)
        t = re.sub(r' (const|volatile)$', '', t)
        t = re.sub(r'^(const|volatile) ', '', t)
        t = re.sub(r'^(typename|class|struct|enum) ', '', t)
        m = re.match(r'^__attribute__\(\(__vector_size__\((\d+) \* sizeof\((.*?)\)\)\)\) (.*)$', t)
        if m:
            n = int(m.group(1))
            sz = VECSZ.get(m.group(2))
            if sz is None:
                raise Abort('vector elem ' + m.group(2))
            return 'm%d' % (n * sz * 8)
        m = re.match(r'^(.*) __attribute__\(\((?:__)?vector_size(?:__)?\((\d+)\)\)\)$', t)
        if m:
            return 'm%d' % (int(m.group(2)) * 8)
        if t in PRIM:
            return PRIM[t]
        if t.startswith('avel::'):
            t = t[6:]
        own = self.cur.get('owner') if self.cur else None
        m = re.match(r'^(Vector_mask|Vector)<(.+), ?(\d+)U?L?>$', t)
        if m:
            el = self.ctype_str(m.group(2), register)
            if el not in SCAL:
                raise Abort('vector element type ' + el)
            nm = ('Mask_' if m.group(1) == 'Vector_mask' else 'Vec_') + SCAL[el] + '_' + m.group(3)
            if register:
                self.need_struct(nm)
            return nm
        m = re.match(r'^(Vector_mask|Vector)<(.+), ?(\d+)U?L?>::(\w+)$', t)
        if m:
            which = m.group(4)
            if which == 'scalar':
                return self.ctype_str(m.group(2))
            if which == 'mask':
                return self.ctype_str('Vector_mask<%s, %s>' % (m.group(2), m.group(3)))
            base = self.ctype_str('%s<%s, %s>' % (m.group(1), m.group(2), m.group(3)))
            if which == 'primitive':
                self.need_struct(base)
                return self.structs[base][0][1]
            raise Abort('nested type ' + t)
        m = re.match(r'^std::array<(.+), ?(\d+)U?L?>::(const_pointer|pointer|value_type|const_reference|reference|size_type)$', t)
        if m:
            el = self.ctype_str(m.group(1))
            w = m.group(3)
            return {'const_pointer': el + '*', 'pointer': el + '*', 'value_type': el, 'const_reference': el + '*',
                    'reference': el + '*', 'size_type': 'size_t'}[w]
        m = re.match(r'^std::array<(.+), ?(\d+)U?L?>$', t)
        if m:
            el = self.ctype_str(m.group(1))
            nm = 'Arr_%s_%s' % (SCAL.get(el, re.sub(r'\W', '_', el)), m.group(2))
            self.structs.setdefault(nm, [('_M_elems', '%s[%s]' % (el, m.group(2)))])
            return nm
        m = re.match(r'^(Denominator|div_type)<(.+)>$', t)
        if m:
            el = self.ctype_str(m.group(2), register)
            nm = ('Denom_' if m.group(1) == 'Denominator' else 'Div_') + SCAL.get(el, el)
            if register:
                self.need_struct(nm)
            return nm
        m = re.match(r'^Aligned_allocator<(.+), ?(\d+)U?L?>::(pointer|const_pointer|size_type|value_type|void_pointer|const_void_pointer|difference_type)$', t)
        if m:
            el = self.ctype_str(m.group(1))
            return {'pointer': el + '*', 'const_pointer': el + '*', 'size_type': 'size_t', 'value_type': el, 'void_pointer': 'void*',
                    'const_void_pointer': 'void*', 'difference_type': 'int64_t'}[m.group(3)]
        if own and own.startswith('Alloc_') and t.startswith('Aligned_allocator::'):
            w = t.split('::', 1)[1]
            if w == 'size_type':
                return 'size_t'
        m = re.match(r'^Aligned_allocator<(.+), ?(\d+)U?L?>$', t)
        if m:
            el = self.ctype_str(m.group(1))
            nm = 'Alloc_%s_%s' % (SCAL.get(el, re.sub(r'\W', '_', el)), m.group(2))
            self.structs.setdefault(nm, [('_empty', 'char')])
            return nm
        if own:
            mo = re.match(r'^(Vec|Mask)_(\w+?)_(\d+)$', own)
            if mo:
                inv = {v: k for k, v in SCAL.items()}
                if t == 'scalar':
                    return inv[mo.group(2)]
                if t == 'primitive':
                    self.need_struct(own)
                    return self.structs[own][0][1]
                if t == 'mask':
                    return self.ctype_str('Vector_mask<%s, %s>' % (inv[mo.group(2)], mo.group(3)))
                if t in ('Vector', 'Vector_mask') and ((t == 'Vector') == (mo.group(1) == 'Vec')):
                    return own
                t2 = re.sub(r'\bwidth\b', mo.group(3), re.sub(r'\bscalar\b', inv[mo.group(2)], t))
                if t2 != t:
                    return self.ctype_str(t2, register)
        if t in self.aliases and self.aliases[t] and self.aliases[t] != t:
            return self.ctype_str(self.aliases[t])
        if t.startswith('std::') and t[5:] in PRIM:
            return PRIM[t[5:]]
        raise Abort('type? ' + t)

    def need_struct(self, nm):
        if nm in self.structs:
            return
        rec = self.records.get(nm)
        if rec is None:
            raise Abort('record not found for ' + nm)
        dd = rec.get('definitionData', {})
        if not dd.get('isTriviallyCopyable', False):
            raise Abort('record not trivially copyable: ' + nm)
        fl = []
        self.structs[nm] = fl
        for c in rec['inner']:
            if c.get('kind') == 'FieldDecl':
                fl.append((c['name'], self.ctype(c['type'])))
            if c.get('kind') == 'CXXRecordDecl' and c.get('isImplicit'):
                continue
        bases = rec.get('bases')
        if bases:
            raise Abort('record with bases: ' + nm)

    @staticmethod
    def decl(ct, name):
        m = re.match(r'^([^\[]*)((?:\[\d+\])+)(\**)$', ct)
        if m and m.group(3):
            raise Abort('pointer to array type ' + ct)
        m = re.match(r'^([^\[]*)((?:\[\d+\])+)$', ct)
        if m:
            return '%s %s%s' % (m.group(1), name, m.group(2))
        return '%s %s' % (ct, name)

    @staticmethod
    def is_ref_t(tnode):
        t = (tnode.get('desugaredQualType') or tnode.get('qualType') or '').strip()
        return t.endswith('&')

    # ------------------------------------------------------------------ names
    @staticmethod
    def is_avel(fd):
        mn = fd.get('mangledName', '')
        return bool(re.match(r'^_ZNK?4avel', mn)) or mn.startswith('_ZN4avel')

    def fname(self, fd):
        mn = fd.get('mangledName')
        if mn and mn.startswith('_Z'):
            return 'F' + mn
        raise Abort('function without mangled name: ' + str(fd.get('name')))

    def extern_name(self, fd, rd):
        name = rd.get('name') if rd else fd.get('name')
        if name.startswith('_'):
            return name          # intrinsics and compiler builtins: unique by name
        if fd is None:
            # declaration outside the dump filter (std:: / libc): disambiguate overloads by signature
            t = (rd.get('type') or {}).get('qualType', '')
            t = re.sub(r'\s*noexcept(\(\w+\))?$', '', t).replace('__restrict', '')
            m = re.match(r'^(.*?)\((.*)\)$', t)
            if not m:
                return name
            try:
                sig = '_'.join(self.sigpart(self.ctype_str(p)) for p in split_top(m.group(2)) if p not in ('', 'void'))
            except Abort:
                sig = 'x'
            return 'X_%s_%s' % (re.sub(r'\W', '_', name), sig)
        mn = fd.get('mangledName', name)
        if mn == name or not mn.startswith('_Z'):
            return name
        # C++-mangled external (std:: overloads): disambiguate by parameter C types
        ps = [c for c in fd.get('inner', []) if c.get('kind') == 'ParmVarDecl']
        try:
            sig = '_'.join(SCAL.get(self.ctype(p['type']), re.sub(r'\W', '_', self.ctype(p['type'])).replace('*', 'p')) for p in ps)
        except Abort:
            sig = 'x'
        return 'X_%s_%s' % (re.sub(r'\W', '_', name), sig)

    @staticmethod
    def sigpart(ct):
        base = ct.rstrip('*')
        return 'p' * (len(ct) - len(base)) + SCAL.get(base, re.sub(r'\W', '_', base))

    # ------------------------------------------------------------------ helpers
    def tmp(self, ct):
        self.cur['tmpc'] += 1
        nm = '__t%d' % self.cur['tmpc']
        self.cur['tmps'].append(self.decl(ct, nm) + ';')
        return nm

    @staticmethod
    def strip(n):
        while n.get('kind') in ('ImplicitCastExpr', 'ParenExpr', 'ExprWithCleanups', 'MaterializeTemporaryExpr',
                                'ConstantExpr', 'SubstNonTypeTemplateParmExpr', 'CXXBindTemporaryExpr') and n.get('inner'):
            if n.get('kind') == 'ImplicitCastExpr' and n.get('castKind') not in (
                    'NoOp', 'LValueToRValue', 'FunctionToPointerDecay', 'BuiltinFnToFnPtr'):
                break
            n = n['inner'][-1]
        return n

    def fn_of_ref(self, rd):
        """-> (call name, decl or None, is_avel)."""
        fd = self.byid.get(rd['id'])
        if fd is not None and fd.get('mangledName') in self.defs:
            fd = self.defs[fd['mangledName']]
        if fd is not None and self.is_avel(fd):
            if not has_body(fd):
                raise Abort('avel function without body: %s %s' % (rd.get('name'), fd.get('mangledName')))
            cn = self.emit_function(fd)
            self.cur['calls'].add(cn)
            return cn, fd, True
        nm = self.extern_name(fd, rd)
        self.cur['externs'].add(nm)
        return nm, fd, False

    @staticmethod
    def returns_ref(fd):
        t = fd.get('type', {}).get('qualType', '')
        depth = 0
        idx = len(t)
        for i, ch in enumerate(t):
            if ch == '<':
                depth += 1
            elif ch == '>':
                depth -= 1
            elif ch == '(' and depth == 0:
                idx = i
                break
        return t[:idx].strip().endswith('&')

    @staticmethod
    def ret_type_str(fd):
        t = fd['type']['qualType']
        depth = 0
        for i, ch in enumerate(t):
            if ch == '<':
                depth += 1
            elif ch == '>':
                depth -= 1
            elif ch == '(' and depth == 0:
                return t[:i].strip()
        raise Abort('function type ' + t)

    def params_of(self, fd):
        return [c for c in fd.get('inner', []) if c.get('kind') == 'ParmVarDecl']

    def param_is_ref(self, fd, i):
        if fd is None:
            return False
        ps = self.params_of(fd)
        return i < len(ps) and self.is_ref_t(ps[i]['type'])

    def arg(self, a, fd, i):
        if a.get('kind') == 'CXXDefaultArgExpr':
            ps = self.params_of(fd)
            p = ps[i]
            init = [c for c in p.get('inner', []) if 'Attr' not in c.get('kind', '')]
            if not init:
                raise Abort('default argument without initialiser')
            a = init[-1]
        if self.param_is_ref(fd, i):
            return self.addr(a)
        return self.E(a)

    def addr(self, n):
        """address of an object expression; prvalues (materialised temporaries) go through a function-level
        temporary assigned in a comma expression, so evaluation order and laziness are preserved."""
        x = n
        while True:
            k = x.get('kind')
            if k == 'MaterializeTemporaryExpr':
                break
            if k in ('ParenExpr', 'ExprWithCleanups', 'ConstantExpr', 'SubstNonTypeTemplateParmExpr', 'CXXBindTemporaryExpr') and x.get('inner'):
                x = x['inner'][-1]
                continue
            if k == 'ImplicitCastExpr' and x.get('castKind') in ('NoOp', 'DerivedToBase', 'UncheckedDerivedToBase') and x.get('inner'):
                x = x['inner'][-1]
                continue
            break
        if x.get('kind') != 'MaterializeTemporaryExpr' and x.get('valueCategory') == 'lvalue':
            return '(&%s)' % self.E(n)
        if x.get('kind') == 'CXXThisExpr':
            return '(&%s)' % self.E(n)
        T = self.ctype(n['type'])
        t = self.tmp(T)
        return '(%s = %s, &%s)' % (t, self.E(n), t)

    def find_ctor(self, n):
        ct = n['ctorType']['qualType']
        T = self.ctype(n['type'])
        cands = []
        rec = self.records.get(T)
        if rec is None:
            raise Abort('ctor of unknown record ' + T)
        for fd in self._ctors_of(rec):
            if fd['type']['qualType'] == ct:
                cands.append(fd)
        if not cands:
            want = self.sig_norm(ct)
            for fd in self._ctors_of(rec):
                try:
                    if self.sig_norm(fd['type']['qualType']) == want:
                        cands.append(fd)
                except Abort:
                    continue
        c2 = [c for c in cands if has_body(c)]
        cands = c2 or cands
        if not cands:
            raise Abort('ctor not found: %s for %s' % (ct, T))
        if len(cands) > 1:
            ids = {c.get('mangledName') for c in cands}
            if len(ids) > 1:
                raise Abort('ambiguous ctor %s for %s' % (ct, T))
        return cands[0]

    def _ctors_of(self, rec):
        key = rec['id']
        if key not in self.ctors:
            out = []

            def walk(n):
                for c in n.get('inner', []):
                    k = c.get('kind')
                    if k == 'CXXConstructorDecl' and 'mangledName' in c:
                        out.append(c)
                    elif k == 'FunctionTemplateDecl':
                        walk(c)
            walk(rec)
            self.ctors[key] = out
        return self.ctors[key]

    def sig_norm(self, ct):
        m = re.match(r'^void \((.*)\)( noexcept)?( const)?$', ct)
        if not m:
            raise Abort('ctor type ' + ct)
        return tuple(self.ctype_str(p) for p in split_top(m.group(1)) if p.strip() and p.strip() != 'void')

    # ------------------------------------------------------------------ expressions
    def lit_int(self, n):
        t = self.ctype(n['type'])
        v = int(n['value'])
        suf = ''
        if t in ('uint64_t', 'unsigned long long', 'size_t'):
            suf = 'ull'
        elif t in ('int64_t', 'long long'):
            suf = 'll'
        elif t == 'uint32_t':
            suf = 'u'
        return '((%s)%d%s)' % (t, v, suf)

    def E(self, n):
        k = n.get('kind')
        inner = n.get('inner', [])
        if k == 'ParenExpr':
            return '(' + self.E(inner[0]) + ')'
        if k in ('ExprWithCleanups', 'MaterializeTemporaryExpr', 'ConstantExpr', 'SubstNonTypeTemplateParmExpr',
                 'CXXBindTemporaryExpr'):
            return self.E(inner[-1])
        if k == 'IntegerLiteral':
            return self.lit_int(n)
        if k == 'CharacterLiteral':
            return '((%s)%d)' % (self.ctype(n['type']), int(n['value']))
        if k == 'CXXBoolLiteralExpr':
            return '((_Bool)%d)' % (1 if n['value'] else 0)
        if k == 'CXXNullPtrLiteralExpr' or k == 'GNUNullExpr':
            return '((void*)0)'
        if k == 'FloatingLiteral':
            t = self.ctype(n['type'])
            v = str(n['value'])
            if re.match(r'^-?\d+$', v):
                v += '.0'
            if v in ('inf', '+Inf', 'Inf', 'nan', 'NaN'):
                raise Abort('non-finite floating literal')
            return '((%s)%s%s)' % (t, v, 'f' if t == 'float' else '')
        if k == 'StringLiteral':
            return n['value']
        if k == 'DeclRefExpr':
            rd = n['referencedDecl']
            rk = rd['kind']
            if rk == 'ParmVarDecl':
                nm = self.local_name(rd)
                return '(*%s)' % nm if self.is_ref_t(rd['type']) else nm
            if rk == 'VarDecl':
                vd = self.byid.get(rd['id'])
                if vd is not None and self.is_global_var(vd):
                    return self.global_ref(vd)
                nm = self.local_name(rd)
                return '(*%s)' % nm if self.is_ref_t(rd['type']) else nm
            if rk == 'EnumConstantDecl':
                ec = self.byid.get(rd['id'])
                v = self.enum_value(ec, rd.get('name'))
                return '((%s)%s)' % (self.ctype(n['type']) if self.ctype(n['type']) in INT_BITS else 'int32_t', v)
            if rk == 'NonTypeTemplateParmDecl':
                raise Abort('template parameter in body (pattern, not instantiation)')
            if rk in ('FunctionDecl', 'CXXMethodDecl'):
                cn, fd, av = self.fn_of_ref(rd)
                return cn
            raise Abort('DeclRef ' + rk)
        if k == 'CXXThisExpr':
            return 'this'
        if k == 'MemberExpr':
            if 'name' not in n:
                raise Abort('member without name')
            md = self.byid.get(n.get('referencedMemberDecl'))
            if md is not None and md.get('kind') == 'VarDecl':   # static member accessed through object
                return self.global_ref(md)
            if md is not None and md.get('kind') != 'FieldDecl':
                raise Abort('member expr to ' + str(md.get('kind')))
            base = self.E(inner[0])
            return '(%s)%s%s' % (base, '->' if n.get('isArrow') else '.', n['name'])
        if k in ('ImplicitCastExpr', 'CStyleCastExpr', 'CXXStaticCastExpr', 'CXXFunctionalCastExpr',
                 'CXXReinterpretCastExpr', 'CXXConstCastExpr'):
            return self.cast(n)
        if k == 'BuiltinBitCastExpr':
            # __builtin_bit_cast(T, x): byte copy
            T = self.ctype(n['type'])
            S = self.ctype(inner[-1]['type'])
            src = self.strip(inner[-1])
            self.cur['externs'].add('AVM_BITCAST')
            return 'AVM_BITCAST(%s, %s, %s)' % (T, S, self.E(inner[-1]))
        if k == 'BinaryOperator':
            return self.binop(n)
        if k == 'CompoundAssignOperator':
            return self.compound_assign(n)
        if k == 'UnaryOperator':
            op = n['opcode']
            sub = self.E(inner[0])
            if op == '-' and self.ctype(n['type']) in SIGNED_INT:
                pass    # CBMC's signed-overflow check covers -MIN
            if n.get('isPostfix'):
                return '(%s%s)' % (sub, op)
            if op == '__extension__':
                return sub
            return '(%s%s)' % (op, sub)
        if k == 'ConditionalOperator':
            return '(%s ? %s : %s)' % tuple(self.E(c) for c in inner)
        if k == 'ArraySubscriptExpr':
            bt = self.ctype(self.strip(inner[0])['type']) if 'type' in self.strip(inner[0]) else ''
            if bt in ('m128', 'm256', 'm512'):
                # subscript on a GCC vector-extension object (e.g. tmp[N] = x on __m128): the element in the register's bytes
                return '((%s*)%s)[%s]' % (self.ctype(n['type']), self.addr(inner[0]), self.E(inner[1]))
            return '%s[%s]' % (self.E(inner[0]), self.E(inner[1]))
        if k == 'UnaryExprOrTypeTraitExpr':
            if n.get('name') in ('sizeof', 'alignof', '__alignof'):
                fn = 'sizeof' if n['name'] == 'sizeof' else '_Alignof'
                if 'argType' in n:
                    return '((size_t)%s(%s))' % (fn, self.ctype(n['argType']))
                return '((size_t)%s(%s))' % (fn, self.ctype(inner[0]['type']).rstrip('*') if False else self.ctype(inner[0]['type']))
            raise Abort('type trait expr ' + str(n.get('name')))
        if k == 'AtomicExpr':
            return self.atomic(n)
        if k == 'CallExpr':
            return self.call(n)
        if k == 'CXXOperatorCallExpr':
            return self.opcall(n)
        if k == 'CXXMemberCallExpr':
            return self.membercall(n)
        if k in ('CXXConstructExpr', 'CXXTemporaryObjectExpr'):
            return self.construct(n)
        if k == 'InitListExpr':
            return self.initlist(n, top=True)
        if k == 'CXXDefaultInitExpr':
            raise Abort('CXXDefaultInitExpr outside ctor initialiser')
        if k == 'ImplicitValueInitExpr' or k == 'CXXScalarValueInitExpr':
            T = self.ctype(n['type'])
            if T in INT_BITS or T in ('float', 'double') or T.endswith('*'):
                return '((%s)0)' % T
            return '((%s){0})' % T
        if k == 'CXXDefaultArgExpr':
            raise Abort('default argument outside call')
        if k == 'CXXNewExpr':
            # placement new of a scalar: new(p) T{init}  ->  store through p, with the alignment the object type requires
            if not n.get('isPlacement') and not any(c.get('kind') == 'ImplicitCastExpr' for c in inner):
                raise Abort('non-placement new')
            T = self.ctype(n['type'])
            if not T.endswith('*'):
                raise Abort('new expression type ' + T)
            et = T[:-1]
            if et not in INT_BITS and et not in ('float', 'double'):
                raise Abort('placement new of non-scalar ' + et)
            place = None
            init = None
            for c in inner:
                if self.ctype(c['type']).endswith('*') and place is None:
                    place = c
                else:
                    init = c
            if place is None:
                raise Abort('placement new without placement argument')
            self.cur['externs'].add('AVM_PLACEMENT_NEW')
            iv = self.E(init) if init is not None else '((%s)0)' % et
            if init is not None and init.get('kind') == 'InitListExpr':
                iv = self.E(init['inner'][0]) if init.get('inner') else '((%s)0)' % et
            return 'AVM_PLACEMENT_NEW(%s, %s, %s)' % (et, self.E(place), iv)
        if k == 'OpaqueValueExpr':
            return self.E(inner[0])
        if k == 'StmtExpr':
            raise Abort('statement expression')
        raise Abort('expr kind ' + str(k))

    def local_name(self, rd):
        nm = rd.get('name')
        if not nm:
            return '__p_%s' % rd['id'][-7:]
        ren = self.cur['rename'].get(rd['id'])
        return ren or ('v_' + nm if nm in C_RESERVED else nm)

    def enum_value(self, ec, name=None):
        if ec is None:
            if name in X86_ENUMS:
                return str(X86_ENUMS[name])
            raise Abort('enum constant not found: ' + str(name))
        for c in ec.get('inner', []):
            s = self.strip(c)
            if 'value' in s:
                return str(s['value'])
            if s.get('kind') == 'ConstantExpr' and 'value' in s:
                return str(s['value'])
        # no initialiser: the value is the previous enumerator's plus one (0 for the first), [dcl.enum]
        par = self.parent.get(ec.get('id'))
        if par is not None and par.get('kind') == 'EnumDecl':
            cur = -1
            for c in par.get('inner', []):
                if c.get('kind') != 'EnumConstantDecl':
                    continue
                explicit = None
                for cc in c.get('inner', []):
                    ss = self.strip(cc)
                    if 'value' in ss:
                        explicit = int(ss['value'])
                    elif ss.get('kind') == 'ConstantExpr' and 'value' in ss:
                        explicit = int(ss['value'])
                cur = explicit if explicit is not None else cur + 1
                if c.get('id') == ec.get('id'):
                    return str(cur)
        raise Abort('enum constant without value: ' + str(ec.get('name')))

    def cast(self, n):
        k = n.get('kind')
        ck = n.get('castKind')
        sub = n['inner'][-1]
        if ck in ('LValueToRValue', 'FunctionToPointerDecay', 'BuiltinFnToFnPtr', 'ArrayToPointerDecay'):
            return self.E(sub)
        if ck == 'NoOp':
            return self.E(sub)
        if ck in ('IntegralCast', 'IntegralToFloating', 'FloatingCast', 'IntegralToBoolean',
                  'FloatingToBoolean', 'BooleanToSignedIntegral', 'PointerToBoolean'):
            return '((%s)%s)' % (self.ctype(n['type']), self.E(sub))
        if ck == 'FloatingToIntegral':
            return '((%s)%s)' % (self.ctype(n['type']), self.E(sub))
        if ck in ('BitCast', 'LValueBitCast'):
            tt = self.ctype(n['type'])
            if tt.endswith('*'):
                return '((%s)%s)' % (tt, self.E(sub))
            st = self.ctype(sub['type'])
            if tt == st:
                return self.E(sub)   # register types of equal size share one C struct
            raise Abort('BitCast %s -> %s' % (st, tt))
        if ck in ('PointerToIntegral', 'IntegralToPointer'):
            return '((%s)%s)' % (self.ctype(n['type']), self.E(sub))
        if ck == 'NullToPointer':
            return '((%s)0)' % self.ctype(n['type'])
        if ck in ('ConstructorConversion', 'UserDefinedConversion'):
            return self.E(sub)
        if ck == 'ToVoid':
            return '((void)%s)' % self.E(sub)
        if ck == 'VectorSplat':
            raise Abort('VectorSplat')
        if ck == 'Dependent':
            raise Abort('dependent cast')
        raise Abort('cast kind ' + str(ck))

    @staticmethod
    def int_literal(n, allow_zero=False):
        """a (non-zero) integer literal behind value-preserving wrappers (casts, parentheses, substituted template arguments)"""
        while n.get('kind') in ('ImplicitCastExpr', 'ParenExpr', 'ConstantExpr', 'SubstNonTypeTemplateParmExpr', 'CStyleCastExpr',
                                'CXXStaticCastExpr', 'CXXFunctionalCastExpr') and n.get('inner'):
            if n.get('castKind') not in (None, 'NoOp', 'IntegralCast', 'LValueToRValue'):
                return False
            n = n['inner'][-1]
        if n.get('kind') != 'IntegerLiteral':
            return False
        try:
            return allow_zero or int(n.get('value', '0')) != 0
        except ValueError:
            return False

    def binop(self, n):
        op = n['opcode']
        a, b = n['inner']
        if op == ',':
            return '(%s, %s)' % (self.E(a), self.E(b))
        T = self.ctype(n['type'])
        if op == '<<' and T in SIGNED_INT:
            self.cur['externs'].add('AVM_SHL_S')
            return 'AVM_SHL_S%d(%s, %s)' % (SIGNED_INT[T], self.E(a), self.E(b))
        if op in ('.*', '->*'):
            raise Abort('pointer to member')
        if op in ('*', '/', '+', '-') and T in ('float', 'double'):
            # float multiplication / division go through a macro so that a TU can treat the FPU operation as an
            # uninterpreted (functionally consistent) symbol; by default the macro is the C operator
            self.cur['externs'].add('AVM_FOP')
            return 'AVM_%s_%s(%s, %s)' % ({'*': 'FMUL', '/': 'FDIV', '+': 'FADD', '-': 'FSUB'}[op], 'f32' if T == 'float' else 'f64', self.E(a), self.E(b))
        if op == '*' and T == 'unsigned __int128':
            self.cur['externs'].add('AVM_MUL')
            return 'AVM_MUL_u128(%s, %s)' % (self.E(a), self.E(b))
        if op == '*' and T == '__int128':
            self.cur['externs'].add('AVM_MUL')
            return 'AVM_MUL_i128(%s, %s)' % (self.E(a), self.E(b))
        if op == '*' and T in DIVT and (self.int_literal(a, allow_zero=True) or self.int_literal(b, allow_zero=True)):
            # a product with a compile-time constant (byte offsets such as 8 * N): always the C operator
            return '(%s %s %s)' % (self.E(a), op, self.E(b))
        if op == '*' and T in DIVT:
            # integer multiplication through a macro (default: the C operator): lets a code-level proof treat the multiplier
            # as an uninterpreted, functionally consistent operation
            self.cur['externs'].add('AVM_MUL')
            return 'AVM_MUL_%s(%s, %s)' % (DIVT[T], self.E(a), self.E(b))
        if op in ('/', '%') and T in DIVT and self.int_literal(b):
            # division by a compile-time constant (lane-index arithmetic such as N / 2, (a + b) / 2): always the C operator
            return '(%s %s %s)' % (self.E(a), op, self.E(b))
        if op in ('/', '%') and T in DIVT:
            # integer division goes through a macro so that a TU can treat the divide instruction as an uninterpreted
            # (functionally consistent) operation; by default the macro is the C operator itself
            self.cur['externs'].add('AVM_DIV')
            return 'AVM_%s_%s(%s, %s)' % ('DIV' if op == '/' else 'REM', DIVT[T], self.E(a), self.E(b))
        return '(%s %s %s)' % (self.E(a), op, self.E(b))

    def compound_assign(self, n):
        op = n['opcode']
        a, b = n['inner']
        lt = self.ctype(a['type'])
        ct = n.get('computeResultType')
        cl = n.get('computeLHSType')
        if op == '<<=':
            crt = self.ctype(ct) if ct else lt
            if crt in SIGNED_INT:
                self.cur['externs'].add('AVM_SHL_S')
                ea = self.E(a)
                return '(%s = (%s)AVM_SHL_S%d((%s)%s, %s))' % (ea, lt, SIGNED_INT[crt], crt, ea, self.E(b))
        if op in ('*=', '/=', '+=', '-=') and (self.ctype(ct) if ct else lt) in ('float', 'double'):
            crt = self.ctype(ct) if ct else lt
            self.cur['externs'].add('AVM_FOP')
            ea = self.E(a)
            return '(%s = (%s)AVM_%s_%s((%s)%s, (%s)%s))' % (ea, lt, {'*=': 'FMUL', '/=': 'FDIV', '+=': 'FADD', '-=': 'FSUB'}[op], 'f32' if crt == 'float' else 'f64', crt, ea, crt, self.E(b))
        if op == '*=' and (self.ctype(ct) if ct else lt) in DIVT and not self.int_literal(b, allow_zero=True):
            crt = self.ctype(ct) if ct else lt
            self.cur['externs'].add('AVM_MUL')
            ea = self.E(a)
            return '(%s = (%s)AVM_MUL_%s((%s)%s, (%s)%s))' % (ea, lt, DIVT[crt], crt, ea, crt, self.E(b))
        if op in ('/=', '%=') and (self.ctype(ct) if ct else lt) in DIVT and not self.int_literal(b):
            crt = self.ctype(ct) if ct else lt
            self.cur['externs'].add('AVM_DIV')
            ea = self.E(a)
            return '(%s = (%s)AVM_%s_%s((%s)%s, (%s)%s))' % (ea, lt, 'DIV' if op == '/=' else 'REM', DIVT[crt], crt, ea, crt, self.E(b))
        return '(%s %s %s)' % (self.E(a), op, self.E(b))

    def call(self, n):
        inner = n['inner']
        c = self.strip(inner[0])
        if c.get('kind') != 'DeclRefExpr':
            raise Abort('callee ' + str(c.get('kind')))
        rd = c['referencedDecl']
        name, fd, av = self.fn_of_ref(rd)
        if fd is None and not name.startswith('_'):
            # declaration outside the dump (std::): reference-ness of parameters / result from the printed signature
            t = re.sub(r'\s*noexcept(\(\w+\))?$', '', (rd.get('type') or {}).get('qualType', ''))
            m = re.match(r'^(.*?)\((.*)\)$', t)
            if m:
                ps = split_top(m.group(2))
                args = []
                for i, a in enumerate(inner[1:]):
                    isref = i < len(ps) and ps[i].rstrip().endswith('&')
                    args.append(self.addr(a) if isref else self.E(a))
                call = '%s(%s)' % (name, ', '.join(args))
                if m.group(1).rstrip().endswith('&'):
                    call = '(*%s)' % call
                return call
        args = [self.arg(a, fd, i) for i, a in enumerate(inner[1:])]
        call = '%s(%s)' % (name, ', '.join(args))
        if fd is not None and self.returns_ref(fd):
            call = '(*%s)' % call
        return call

    def opcall(self, n):
        inner = n['inner']
        c = self.strip(inner[0])
        if c.get('kind') != 'DeclRefExpr':
            raise Abort('operator callee ' + str(c.get('kind')))
        rd = c['referencedDecl']
        fd0 = self.byid.get(rd['id'])
        args = inner[1:]
        # std::array::operator[] / other std members are not avel code
        if fd0 is None or not self.is_avel(fd0):
            if rd.get('kind') == 'CXXMethodDecl':
                return self.std_member(rd.get('name'), fd0, args[0], args[1:], arrow=False)
            raise Abort('non-avel operator function ' + str(rd.get('name')))
        name, fd, av = self.fn_of_ref(rd)
        if fd.get('kind') == 'CXXMethodDecl':
            obj = self.addr(args[0])
            rest = [self.arg(a, fd, i) for i, a in enumerate(args[1:])]
            call = '%s(%s)' % (name, ', '.join([obj] + rest))
        else:
            call = '%s(%s)' % (name, ', '.join(self.arg(a, fd, i) for i, a in enumerate(args)))
        if self.returns_ref(fd):
            call = '(*%s)' % call
        return call

    def std_member(self, name, fd, objn, args, arrow):
        ot = self.ctype(objn['type'])
        base = ot.rstrip('*')
        if base.startswith('Arr_'):
            if arrow or ot.endswith('*'):
                obj = self.E(objn)
                acc = '->'
            else:
                obj = '*' + self.addr(objn)
                acc = '.'
            if name in ('operator[]', 'at') and len(args) == 1:
                return '(%s)%s_M_elems[%s]' % (obj, acc, self.E(args[0]))
            if name == 'data' and not args:
                return '(%s)%s_M_elems' % (obj, acc)
            if name == 'size' and not args:
                m = re.match(r'^Arr_.*_(\d+)$', base)
                return '((size_t)%s)' % m.group(1)
        raise Abort('std member %s on %s' % (name, ot))

    def membercall(self, n):
        inner = n['inner']
        me = self.strip(inner[0])
        if me.get('kind') != 'MemberExpr':
            raise Abort('member call shape ' + str(me.get('kind')))
        fd = self.byid.get(me.get('referencedMemberDecl'))
        objn = me['inner'][0]
        if fd is None:
            return self.std_member(me.get('name'), None, objn, inner[1:], me.get('isArrow'))
        if not self.is_avel(fd):
            return self.std_member(fd.get('name'), fd, objn, inner[1:], me.get('isArrow'))
        if fd.get('mangledName') in self.defs:
            fd = self.defs[fd['mangledName']]
        if not has_body(fd):
            raise Abort('avel method without body: ' + str(fd.get('name')))
        cn = self.emit_function(fd)
        self.cur['calls'].add(cn)
        obj = self.E(objn) if me.get('isArrow') else self.addr(objn)
        rest = [self.arg(a, fd, i) for i, a in enumerate(inner[1:])]
        call = '%s(%s)' % (cn, ', '.join([obj] + rest))
        if self.returns_ref(fd):
            call = '(*%s)' % call
        return call

    def construct(self, n):
        inner = n.get('inner', [])
        ct = n['ctorType']['qualType']
        T = self.ctype(n['type'])
        m = re.match(r'^void \((.*?)&&?\)( noexcept)?$', ct)
        if m and len(inner) == 1:
            try:
                if self.ctype_str(m.group(1)) == T:
                    return self.E(inner[0])      # trivial copy / move
            except Abort:
                pass
        if T.startswith('Arr_') or T.startswith('Div_'):
            if len(inner) == 0:
                return '((%s){0})' % T
            raise Abort('aggregate construct with args ' + T)
        if len(inner) == 0:
            rec = self.records.get(T)
            if rec is None:
                raise Abort('construct of unknown record ' + T)
            # default ctor: defaulted (= default) => value/default init of trivial type
            dd = rec.get('definitionData', {}).get('defaultCtor', {})
            if dd.get('trivial') or dd.get('defaultedIsConstexpr') or True:
                cands = [c for c in self._ctors_of(rec) if not self.params_of(c) and has_body(c)
                         and not c.get('isImplicit') and c.get('explicitlyDefaulted') is None]
                if cands:
                    cn = self.emit_function(cands[0])
                    self.cur['calls'].add(cn)
                    return '%s()' % cn
                if n.get('zeroing') or n.get('list'):
                    return '((%s){0})' % T
                self.cur['externs'].add('AVM_UNINIT')
                return 'AVM_UNINIT(%s)' % T
        ctor = self.find_ctor(n)
        if not has_body(ctor):
            raise Abort('ctor without body for ' + T)
        cn = self.emit_function(ctor)
        self.cur['calls'].add(cn)
        return '%s(%s)' % (cn, ', '.join(self.arg(a, ctor, i) for i, a in enumerate(inner)))

    def initlist(self, n, top):
        T = self.ctype(n['type'])
        inner = n.get('inner', [])
        if 'array_filler' in n:
            inner = [c for c in n['array_filler'] if c.get('kind') != 'ImplicitValueInitExpr']
        parts = []
        for c in inner:
            if c.get('kind') == 'InitListExpr':
                parts.append(self.initlist(c, top=False))
            elif c.get('kind') in ('ImplicitValueInitExpr', 'CXXScalarValueInitExpr') and (
                    '[' in self.ctype(c['type']) or self.ctype(c['type']) in self.structs):
                parts.append('{0}')
            else:
                parts.append(self.E(c))
        body = '{%s}' % (', '.join(parts) if parts else '0')
        if T in INT_BITS or T in ('float', 'double') or T.endswith('*'):
            if len(parts) == 1:
                return parts[0] if top else parts[0]
            if not parts:
                return '((%s)0)' % T
        if top:
            if '[' in T:
                return body
            return '((%s)%s)' % (T, body)
        return body

    # ------------------------------------------------------------------ globals
    def is_global_var(self, vd):
        par = self.parent.get(vd['id'])
        pk = par.get('kind') if par else None
        if pk in ('NamespaceDecl', 'TranslationUnitDecl', 'ClassTemplateSpecializationDecl', 'CXXRecordDecl', None):
            return True
        if vd.get('storageClass') == 'static':
            return True
        return False

    def global_ref(self, vd):
        gid = vd['id']
        mn = vd.get('mangledName')
        base = re.sub(r'\W', '_', mn) if mn else '%s_%s' % (vd.get('name'), gid[-6:])
        cn = 'G' + base if base.startswith('_') else 'G_' + base
        self.cur['globals'].add(cn)
        if cn in self.globals:
            return cn
        T = self.ctype(vd['type'])
        qt = vd['type'].get('qualType', '')
        is_const = bool(re.match(r'^const\b', qt)) or vd.get('constexpr')
        self.globals[cn] = None
        init = [c for c in vd.get('inner', []) if 'Attr' not in c.get('kind', '') and c.get('kind') not in ('TemplateArgument',)]
        saved = self.cur
        self.cur = {'tmpc': 0, 'tmps': [], 'calls': set(), 'externs': set(), 'globals': set(), 'rename': {}, 'structs': set()}
        try:
            if not init:
                raise Abort('global without initialiser: ' + str(vd.get('name')))
            e = init[-1]
            const_ok = self.is_const_init(e)
            if const_ok:
                text = self.initlist(e, top=True) if e.get('kind') == 'InitListExpr' else self.E(e)
                if text.startswith('((') and '){' in text and '[' not in T and e.get('kind') == 'InitListExpr':
                    text = text[text.index('){') + 1:-1]
                self.globals[cn] = {'decl': ('const ' if is_const else '') + self.decl(T, cn), 'init': text, 'dyn': None,
                                    'calls': set(), 'externs': set(self.cur['externs']), 'globals': set(self.cur['globals'])}
            else:
                text = self.E(e)
                if self.cur['tmps']:
                    raise Abort('temporaries in global initialiser')
                self.globals[cn] = {'decl': self.decl(T, cn), 'init': None, 'dyn': '%s = %s;' % (cn, text),
                                    'calls': set(self.cur['calls']), 'externs': set(self.cur['externs']),
                                    'globals': set(self.cur['globals'])}
        finally:
            self.cur = saved
        return cn

    def is_const_init(self, e):
        k = e.get('kind')
        if k in ('IntegerLiteral', 'FloatingLiteral', 'CXXBoolLiteralExpr', 'CharacterLiteral'):
            return True
        if k in ('ImplicitCastExpr', 'ParenExpr', 'ConstantExpr', 'CStyleCastExpr', 'CXXStaticCastExpr',
                 'CXXFunctionalCastExpr', 'ExprWithCleanups') and e.get('inner'):
            if e.get('castKind') in ('LValueToRValue',):
                return False
            return self.is_const_init(e['inner'][-1])
        if k == 'UnaryOperator' and e.get('opcode') in ('-', '+', '~', '!'):
            return self.is_const_init(e['inner'][0])
        if k == 'BinaryOperator' and e.get('opcode') in ('+', '-', '*', '/', '%', '<<', '>>', '|', '&', '^'):
            return all(self.is_const_init(c) for c in e['inner'])
        if k == 'InitListExpr':
            inner = e.get('inner', [])
            if 'array_filler' in e:
                inner = [c for c in e['array_filler'] if c.get('kind') != 'ImplicitValueInitExpr']
            return all(self.is_const_init(c) for c in inner)
        if k == 'UnaryExprOrTypeTraitExpr':
            return True
        return False

    # ------------------------------------------------------------------ statements
    def S(self, n, ind):
        k = n.get('kind')
        inner = n.get('inner', [])
        pad = '  ' * ind
        if k == 'CompoundStmt':
            return pad + '{\n' + ''.join(self.S(c, ind + 1) for c in inner) + pad + '}\n'
        if k == 'ReturnStmt':
            if not inner:
                if self.cur['is_ctor']:
                    return pad + 'return __self;\n'
                return pad + 'return;\n'
            if self.cur['returns_ref']:
                return pad + 'return %s;\n' % self.addr_lvalue(inner[0])
            return pad + 'return %s;\n' % self.E(inner[0])
        if k == 'DeclStmt':
            return ''.join(self.vardecl(v, pad) for v in inner)
        if k == 'IfStmt':
            if n.get('hasInit') or n.get('hasVar'):
                raise Abort('if with init/var')
            s = pad + 'if (%s)\n' % self.E(inner[0]) + self.S_block(inner[1], ind)
            if len(inner) > 2:
                s += pad + 'else\n' + self.S_block(inner[2], ind)
            return s
        if k == 'NullStmt':
            return pad + ';\n'
        if k == 'ForStmt':
            # inner: init, condvar, cond, inc, body (empty dicts for absent)
            init, condvar, cond, inc, body = inner
            if condvar:
                raise Abort('for with condition variable')
            s = pad + '{\n'
            if init:
                s += self.S(init, ind + 1)
            s += pad + '  for (; %s; %s)\n' % (self.E(cond) if cond else '', self.E(inc) if inc else '')
            s += '%s' % self.loop_contract_slot(n, ind + 1)
            s += self.S_block(body, ind + 1)
            s += pad + '}\n'
            return s
        if k == 'WhileStmt':
            if len(inner) != 2:
                raise Abort('while with condition variable')
            return pad + 'while (%s)\n' % self.E(inner[0]) + self.loop_contract_slot(n, ind) + self.S_block(inner[1], ind)
        if k == 'DoStmt':
            return pad + 'do\n' + self.S_block(inner[0], ind) + pad + 'while (%s);\n' % self.E(inner[1])
        if k == 'SwitchStmt':
            if len(inner) != 2:
                raise Abort('switch with init/var')
            return pad + 'switch (%s)\n' % self.E(inner[0]) + self.S_block(inner[1], ind)
        if k == 'CaseStmt':
            v = self.strip(inner[0])
            val = v.get('value')
            if val is None:
                val = self.E(inner[0])
            if len(inner) != 2:
                raise Abort('case range')
            return pad + 'case %s:\n' % val + self.S(inner[1], ind + 1)
        if k == 'DefaultStmt':
            return pad + 'default:\n' + self.S(inner[0], ind + 1)
        if k == 'BreakStmt':
            return pad + 'break;\n'
        if k == 'ContinueStmt':
            return pad + 'continue;\n'
        if k == 'GotoStmt':
            tgt = self.cur['labels'].get(n.get('targetLabelDeclId'))
            if tgt is None:
                raise Abort('goto target')
            return pad + 'goto %s;\n' % tgt
        if k == 'LabelStmt':
            return pad[:-2] + '%s:\n' % n['name'] + self.S(inner[0], ind)
        if k == 'GCCAsmStmt':
            return self.asm_stmt(n, pad)
        if k == 'AttributedStmt':
            return self.S(inner[-1], ind)
        if k in ('CXXTryStmt', 'CXXForRangeStmt', 'CXXCatchStmt'):
            raise Abort('stmt kind ' + k)
        e = self.E(n)
        return pad + e + ';\n'

    def S_block(self, n, ind):
        if n.get('kind') == 'CompoundStmt':
            return self.S(n, ind)
        return '  ' * ind + '{\n' + self.S(n, ind + 1) + '  ' * ind + '}\n'

    def loop_contract_slot(self, n, ind):
        self.cur['loops'] += 1
        return '  ' * ind + '/*@LOOP%d@*/\n' % self.cur['loops']

    def addr_lvalue(self, n):
        s = self.strip(n)
        if s.get('kind') == 'UnaryOperator' and s.get('opcode') == '*':
            return self.E(s['inner'][0])
        return '&' + self.E(n)

    def vardecl(self, v, pad):
        k = v.get('kind')
        if k in ('StaticAssertDecl', 'TypeAliasDecl', 'TypedefDecl', 'UsingDecl', 'EmptyDecl'):
            return ''
        if k != 'VarDecl':
            raise Abort('local decl ' + str(k))
        if v.get('storageClass') == 'static' or v.get('constexpr') and v.get('storageClass') == 'static':
            # function-level static table: becomes a C global (read-only tables in AVEL)
            self.byid[v['id']] = v
            self.parent[v['id']] = {'kind': 'NamespaceDecl'}
            self.global_ref(v)
            return ''
        name = self.local_name(v)
        init = [c for c in v.get('inner', []) if 'Attr' not in c.get('kind', '')]
        if self.is_ref_t(v['type']):
            T = self.ctype(v['type'])
            if not init:
                raise Abort('reference without initialiser')
            return pad + '%s = %s;\n' % (self.decl(T, name), self.addr(init[-1]))
        T = self.ctype(v['type'])
        if not init:
            return pad + self.decl(T, name) + ';\n'
        e = init[-1]
        if e.get('kind') == 'InitListExpr' and '[' in T:
            return pad + '%s = %s;\n' % (self.decl(T, name), self.initlist(e, top=True))
        if e.get('kind') in ('CXXConstructExpr',) and not e.get('inner') and '[' in T:
            return pad + self.decl(T, name) + ';\n'
        return pad + '%s = %s;\n' % (self.decl(T, name), self.E(e))

    ATOMIC_OPS = {'add': '+', 'sub': '-', 'and': '&', 'or': '|', 'xor': '^'}

    def atomic(self, n):
        """GCC __atomic_* builtins on scalars.  Clang's JSON dump carries no operation name, so it is read from the source text of the
        node (abort when it is not one of the forms below).  The verified text is sequential (no property here is about threads), so
        each becomes the plain read / write / read-modify-write of *ptr it performs: the accesses stay visible to the pointer checks
        and to the assigns clause.  Sub-expression order in the AST: ptr, memory order, value."""
        m = re.match(r'\s*(__atomic_\w+)\s*\(', self.src_text(n))
        if not m:
            raise Abort('AtomicExpr: unrecognised source form')
        op = m.group(1)
        inner = [c for c in n.get('inner', [])]
        PT = self.ctype(inner[0]['type'])
        if not PT.endswith('*') or PT[:-1].strip() not in INT_BITS:
            raise Abort('AtomicExpr on ' + PT)
        T = PT[:-1].strip()
        ptr = self.E(inner[0])
        self.tmp_counter = getattr(self, 'tmp_counter', 0) + 1
        pv, tv = '_avm_ap%d' % self.tmp_counter, '_avm_at%d' % self.tmp_counter
        if op == '__atomic_load_n' and len(inner) == 2:
            return '(*(%s))' % ptr
        if op == '__atomic_store_n' and len(inner) == 3:
            return '((void)(*(%s) = (%s)(%s)))' % (ptr, T, self.E(inner[2]))
        if op == '__atomic_exchange_n' and len(inner) == 3:
            return '({ %s *%s = %s; %s %s = *%s; *%s = (%s)(%s); %s; })' % (T, pv, ptr, T, tv, pv, pv, T, self.E(inner[2]), tv)
        m2 = re.match(r'__atomic_fetch_(add|sub|and|or|xor)$', op)
        if m2 and len(inner) == 3:
            return '({ %s *%s = %s; %s %s = *%s; *%s = (%s)(%s %s (%s)(%s)); %s; })' % (
                T, pv, ptr, T, tv, pv, pv, T, tv, self.ATOMIC_OPS[m2.group(1)], T, self.E(inner[2]), tv)
        m2 = re.match(r'__atomic_(add|sub|and|or|xor)_fetch$', op)
        if m2 and len(inner) == 3:
            return '({ %s *%s = %s; *%s = (%s)(*%s %s (%s)(%s)); *%s; })' % (
                T, pv, ptr, pv, T, pv, self.ATOMIC_OPS[m2.group(1)], T, self.E(inner[2]), pv)
        raise Abort('AtomicExpr ' + op)

    def src_text(self, n):
        f = self.cur.get('file')
        r = n.get('range', {})
        b = r.get('begin', {})
        e = r.get('end', {})
        if 'expansionLoc' in b:
            b = b['expansionLoc']
        if 'expansionLoc' in e:
            e = e['expansionLoc']
        if f is None or 'offset' not in b or 'offset' not in e:
            raise Abort('no source range for node')
        with open(f, 'rb') as fh:
            data = fh.read()
        return data[b['offset']:e['offset'] + e.get('tokLen', 1)].decode('utf8', 'replace')

    def asm_stmt(self, n, pad):
        """inline asm: recognised by its template string; each becomes a call of an instruction contract"""
        txt = self.src_text(n)
        strs = re.findall(r'"((?:[^"\\]|\\.)*)"', txt)
        ops = n.get('inner', [])
        tmpl = ' '.join(strs)
        if re.search(r'\bdivq? %\[v\]', tmpl) and len(ops) == 5:
            quot, rem, v, lo, hi = ops
            self.cur['externs'].add('model_divq')
            return pad + '%s = model_divq(%s, %s, %s, &%s);\n' % (self.E(quot), self.E(hi), self.E(lo), self.E(v), self.E(rem))
        if re.search(r'add %\[b\], %\[a\]', tmpl) and 'rcr %[a]' in tmpl and len(ops) == 2:
            a, b = ops
            self.cur['externs'].add('model_add_rcr64')
            return pad + '%s = model_add_rcr64(%s, %s);\n' % (self.E(a), self.E(a), self.E(b))
        raise Abort('inline asm without rule: ' + tmpl[:60])

    # ------------------------------------------------------------------ functions
    def emit_function(self, fd):
        cn = self.fname(fd)
        if cn in self.funcs:
            rec = self.funcs[cn]
            if rec.get('error') and not rec.get('in_progress'):
                raise Abort('callee %s: %s' % (cn, rec['error']))
            return cn
        rec = {'cname': cn, 'in_progress': True, 'error': None}
        self.funcs[cn] = rec
        saved = self.cur
        self.cur = {'tmpc': 0, 'tmps': [], 'calls': set(), 'externs': set(), 'globals': set(), 'rename': {},
                    'loops': 0, 'is_ctor': False, 'returns_ref': False}
        try:
            self._emit(fd, rec)
        except Abort as e:
            rec['error'] = str(e)
        except (KeyError, IndexError, TypeError, ValueError) as e:
            rec['error'] = 'emitter exception %s: %s' % (type(e).__name__, e)
        finally:
            rec['in_progress'] = False
            self.cur = saved
        if rec['error']:
            raise Abort('callee %s: %s' % (cn, rec['error']))
        return cn

    def owner_of(self, fd):
        par = self.parent.get(fd['id'])
        while par is not None and par.get('kind') in ('FunctionTemplateDecl', 'FriendDecl'):
            par = self.parent.get(par['id'])
        return par

    def _emit(self, fd, rec):
        kind = fd['kind']
        body = [c for c in fd.get('inner', []) if c.get('kind') == 'CompoundStmt'][0]
        labels = {}

        def scan(n):
            if n.get('kind') == 'LabelStmt':
                labels[n.get('declId')] = n.get('name')
            for c in n.get('inner', []):
                scan(c)
        scan(body)
        self.cur['labels'] = labels
        self.cur['file'] = self.locs.get(fd['id'], (None, None))[0]
        params = self.params_of(fd)
        file, line = self.locs.get(fd['id'], (None, None))
        rec.update({'name': fd.get('name'), 'mangled': fd.get('mangledName'), 'file': file, 'line': line,
                    'cxx_type': fd['type']['qualType']})
        pinfo = []
        ps = []
        opar = self.owner_of(fd)
        if kind in ('CXXMethodDecl', 'CXXConstructorDecl', 'CXXConversionDecl') and opar is not None:
            try:
                self.cur['owner'] = self.rec_cname(opar)
            except Abort:
                pass
        for i, p in enumerate(params):
            pn = self.local_name(p)
            ct = self.ctype(p['type'])
            pinfo.append({'name': pn, 'ctype': ct, 'ref': self.is_ref_t(p['type']), 'cxx': p['type'].get('qualType')})
            ps.append(self.decl(ct, pn))
        owner = None
        par = self.owner_of(fd)
        if kind in ('CXXMethodDecl', 'CXXConstructorDecl', 'CXXConversionDecl', 'CXXDestructorDecl'):
            if par is None:
                raise Abort('method without record')
            owner = self.rec_cname(par)
            if owner is None:
                raise Abort('method of unmodelled record ' + str(par.get('name')))
            self.need_struct(owner)
            self.cur['owner'] = owner
        # template arguments of function template specialisations
        targs = []
        for c in fd.get('inner', []):
            if c.get('kind') == 'TemplateArgument':
                if 'value' in c:
                    targs.append(int(c['value']))
                elif 'type' in c:
                    try:
                        targs.append(self.ctype(c['type']))
                    except Abort:
                        targs.append(c['type'].get('qualType'))
                else:
                    targs.append(None)
        static = fd.get('storageClass') == 'static'
        rec.update({'owner': owner, 'params': pinfo, 'targs': targs, 'static': static})
        code = ''
        if kind == 'CXXConstructorDecl':
            rec['kind'] = 'ctor'
            self.cur['is_ctor'] = True
            ret = owner
            rec['ret'] = ret
            rec['ret_ref'] = False
            head = '%s %s(%s)' % (ret, rec['cname'], ', '.join(ps) or 'void')
            pre = '  %s __self;\n  %s* this = &__self;\n' % (owner, owner)
            inits = ''
            for ci in fd['inner']:
                if ci.get('kind') != 'CXXCtorInitializer':
                    continue
                e = ci['inner'][0]
                if 'anyInit' in ci:
                    if e.get('kind') == 'CXXDefaultInitExpr':
                        f = self.fieldinit.get(ci['anyInit']['id'])
                        fin = [c for c in (f or {}).get('inner', []) if 'Attr' not in c.get('kind', '')]
                        if not fin:
                            raise Abort('default member initialiser not found: ' + ci['anyInit'].get('name', '?'))
                        e = fin[-1]
                    ft = None
                    for fnm, fct in self.structs[owner]:
                        if fnm == ci['anyInit']['name']:
                            ft = fct
                    if ft is not None and '[' in ft:
                        raise Abort('array member initialiser')
                    inits += '  this->%s = %s;\n' % (ci['anyInit']['name'], self.E(e))
                elif 'delegatingInit' in ci:
                    inits += '  *this = %s;\n' % self.E(e)
                else:
                    raise Abort('ctor initialiser kind (base class?)')
            btxt = self.S(body, 1)
            tm = ''.join('  ' + t + '\n' for t in self.cur['tmps'])
            code = head + '\n/*@CONTRACT@*/\n{\n' + pre + tm + inits + btxt + '  return __self;\n}\n'
        else:
            rts = self.ret_type_str(fd)
            ret = self.ctype_str(rts) if rts != 'auto' else None
            if ret is None:
                raise Abort('auto return type')
            self.cur['returns_ref'] = rts.endswith('&')
            rec['ret'] = ret
            rec['ret_ref'] = self.cur['returns_ref']
            if kind in ('CXXMethodDecl', 'CXXConversionDecl') and not static:
                ps = ['%s* this' % owner] + ps
                rec['kind'] = 'conv' if kind == 'CXXConversionDecl' else 'method'
            elif kind == 'CXXDestructorDecl':
                raise Abort('destructor with body')
            else:
                rec['kind'] = 'function'
            if '[' in ret:
                raise Abort('array return type')
            head = '%s %s(%s)' % (ret, rec['cname'], ', '.join(ps) or 'void')
            btxt = self.S(body, 0)
            tm = ''.join('  ' + t + '\n' for t in self.cur['tmps'])
            if tm:
                btxt = btxt.replace('{\n', '{\n' + tm, 1)
            code = head + '\n/*@CONTRACT@*/\n' + btxt
        rec['proto'] = head + ';'
        rec['code'] = code
        rec['calls'] = sorted(self.cur['calls'])
        rec['externs'] = sorted(self.cur['externs'])
        rec['globals'] = sorted(self.cur['globals'])
        rec['loops'] = self.cur['loops']

    # ------------------------------------------------------------------ driver
    def emit_all(self):
        for mn, fd in list(self.defs.items()):
            if not self.is_avel(fd) or fd.get('isImplicit'):
                continue
            try:
                self.emit_function(fd)
            except Abort:
                pass
        return self.database()

    def database(self):
        glob = {}
        for k, v in self.globals.items():
            if v is None:
                continue
            glob[k] = {kk: (sorted(vv) if isinstance(vv, set) else vv) for kk, vv in v.items()}
        funcs = {}
        for cn, r in self.funcs.items():
            r = dict(r)
            r.pop('in_progress', None)
            funcs[cn] = r
        return {'structs': {k: v for k, v in self.structs.items() if v}, 'globals': glob, 'functions': funcs}


# enumerators of clang's x86 intrinsic headers referenced by AVEL (values from avx512fintrin.h)
X86_ENUMS = {'_MM_CMPINT_EQ': 0, '_MM_CMPINT_LT': 1, '_MM_CMPINT_LE': 2, '_MM_CMPINT_UNUSED': 3, '_MM_CMPINT_NE': 4,
             '_MM_CMPINT_NLT': 5, '_MM_CMPINT_NLE': 6, '_MM_CMPINT_GE': 5, '_MM_CMPINT_GT': 6,
             '_MM_MANT_NORM_1_2': 0, '_MM_MANT_NORM_p5_2': 1, '_MM_MANT_NORM_p5_1': 2, '_MM_MANT_NORM_p75_1p5': 3,
             '_MM_MANT_SIGN_src': 0, '_MM_MANT_SIGN_zero': 1, '_MM_MANT_SIGN_nan': 2}

DIVT = {'int32_t': 'i32', 'uint32_t': 'u32', 'int64_t': 'i64', 'uint64_t': 'u64', 'long long': 'i64', 'unsigned long long': 'u64', 'size_t': 'u64'}

C_RESERVED = {'restrict', 'inline', 'register', 'auto', 'main', 'm128', 'm256', 'm512', 'near', 'far'}


def struct_order(structs):
    """topological order of struct definitions by field types"""
    order = []
    seen = set()

    def visit(nm):
        if nm in seen or nm not in structs:
            return
        seen.add(nm)
        for f, t in structs[nm]:
            base = re.sub(r'(\[\d+\])+$', '', t).rstrip('*').strip()
            visit(base)
        order.append(nm)
    for nm in sorted(structs):
        visit(nm)
    return order


def struct_text(structs):
    out = []
    for nm in struct_order(structs):
        out.append('typedef struct %s { %s } %s;' % (nm, ' '.join(Emitter.decl(t, f) + ';' for f, t in structs[nm]), nm))
    return '\n'.join(out) + '\n'


if __name__ == '__main__':
    import pickle
    em = Emitter(load_docs(sys.argv[1]))
    db = em.emit_all()
    ok = [f for f in db['functions'].values() if not f['error']]
    bad = [f for f in db['functions'].values() if f['error']]
    print('functions: %d ok, %d failed' % (len(ok), len(bad)), file=sys.stderr)
    import collections
    c = collections.Counter(re.sub(r'F_Z\w+', 'F..', f['error'])[:90] for f in bad)
    for m, k in c.most_common(40):
        print('%5d  %s' % (k, m), file=sys.stderr)
    if len(sys.argv) > 2:
        pickle.dump(db, open(sys.argv[2], 'wb'))
