import Mathlib

/-- Core algebraic identity: with `ux = x + a*P`, `uy = y + b*P`. -/
theorem L7_key (P x y a b : ℤ) (hP : P ≠ 0) :
    ((x * y) / P) % P
      = (((x + a * P) * (y + b * P)) / P - a * (y + b * P) - b * (x + a * P)) % P := by
  have h1 : (x + a * P) * (y + b * P) = x * y + P * (a * y + b * x + a * b * P) := by ring
  rw [h1, Int.add_mul_ediv_left _ _ hP]
  have h2 : x * y / P + (a * y + b * x + a * b * P) - a * (y + b * P) - b * (x + a * P)
      = x * y / P + P * (-(a * b)) := by ring
  rw [h2, Int.add_mul_emod_self_left]

theorem L7_umod_nonneg (P x : ℤ) (h0 : 0 ≤ x) (h1 : x < P) : x % P = x :=
  Int.emod_eq_of_lt h0 h1

theorem L7_umod_neg (P x : ℤ) (h0 : x < 0) (h1 : -P ≤ x) : x % P = x + P := by
  have h := Int.add_emod_right x P
  rw [← h]
  exact Int.emod_eq_of_lt (by omega) (by omega)

/-- Generic version with `P = 2*H`. -/
theorem L7_aux (P H x y : ℤ) (hPH : P = 2 * H) (hH : 0 < H)
    (hx1 : -H ≤ x) (hx2 : x < H) (hy1 : -H ≤ y) (hy2 : y < H) :
    ((x * y) / P) % P
      = (((x % P) * (y % P)) / P - (if x < 0 then y % P else 0) - (if y < 0 then x % P else 0)) % P := by
  have hP : P ≠ 0 := by omega
  by_cases hxs : x < 0 <;> by_cases hys : y < 0
  · have hux : x % P = x + P := L7_umod_neg P x hxs (by omega)
    have huy : y % P = y + P := L7_umod_neg P y hys (by omega)
    rw [hux, huy, if_pos hxs, if_pos hys, L7_key P x y 1 1 hP]
    congr 1; ring_nf
  · have hux : x % P = x + P := L7_umod_neg P x hxs (by omega)
    have huy : y % P = y := L7_umod_nonneg P y (by omega) (by omega)
    rw [hux, huy, if_pos hxs, if_neg hys, L7_key P x y 1 0 hP]
    congr 1; ring_nf
  · have hux : x % P = x := L7_umod_nonneg P x (by omega) (by omega)
    have huy : y % P = y + P := L7_umod_neg P y hys (by omega)
    rw [hux, huy, if_neg hxs, if_pos hys, L7_key P x y 0 1 hP]
    congr 1; ring_nf
  · have hux : x % P = x := L7_umod_nonneg P x (by omega) (by omega)
    have huy : y % P = y := L7_umod_nonneg P y (by omega) (by omega)
    rw [hux, huy, if_neg hxs, if_neg hys, L7_key P x y 0 0 hP]
    congr 1; ring_nf

/-- L7: signed high half from the unsigned high half. `/` and `%` on ℤ are floor division / non-negative remainder (Int.ediv / Int.emod)
    for the positive divisor 2^N. -/
theorem mulhs_from_mulhu (N : ℕ) (x y : ℤ)
    (hx1 : -(2:ℤ) ^ (N - 1) ≤ x) (hx2 : x < (2:ℤ) ^ (N - 1)) (hy1 : -(2:ℤ) ^ (N - 1) ≤ y) (hy2 : y < (2:ℤ) ^ (N - 1)) (hN : 1 ≤ N) :
    let ux := x % 2 ^ N
    let uy := y % 2 ^ N
    ((x * y) / 2 ^ N) % 2 ^ N
      = ((ux * uy) / 2 ^ N - (if x < 0 then uy else 0) - (if y < 0 then ux else 0)) % 2 ^ N := by
  intro ux uy
  have hPH : (2:ℤ) ^ N = 2 * 2 ^ (N - 1) := by
    obtain ⟨k, rfl⟩ : ∃ k, N = k + 1 := ⟨N - 1, by omega⟩
    simp [pow_succ, mul_comm]
  have hH : (0:ℤ) < 2 ^ (N - 1) := by positivity
  exact L7_aux (2 ^ N) (2 ^ (N - 1)) x y hPH hH hx1 hx2 hy1 hy2

#print axioms mulhs_from_mulhu
