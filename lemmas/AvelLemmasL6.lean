import Mathlib

/-- Pure algebra: regrouping of the schoolbook product. -/
theorem mulhi_core (P ah al bh bl q1 r1 q2 r2 q3 r3 c r : ℕ)
    (h1 : ah * bl = q1 * P + r1) (h2 : bh * al = q2 * P + r2)
    (h3 : al * bl = q3 * P + r3) (h4 : r1 + r2 + q3 = c * P + r) :
    (ah * P + al) * (bh * P + bl)
      = (ah * bh + q1 + q2 + c) * (P * P) + (r * P + r3) := by
  have e : (ah * P + al) * (bh * P + bl)
      = ah * bh * (P * P) + (ah * bl + bh * al) * P + al * bl := by ring
  rw [e, h1, h2, h3]
  have h4' : (r1 + r2 + q3) * P = (c * P + r) * P := by rw [h4]
  nlinarith [h4']

/-- Generic base `P > 0` version (no bound on a, b needed for the equality). -/
theorem mulhi_base (P a b : ℕ) (hP : 0 < P) :
    (a / P) * (b / P) + ((a / P) * (b % P)) / P + ((b / P) * (a % P)) / P
      + (((a / P) * (b % P)) % P + ((b / P) * (a % P)) % P + ((a % P) * (b % P)) / P) / P
    = (a * b) / (P * P) := by
  have key := mulhi_core P (a / P) (a % P) (b / P) (b % P)
    (((a / P) * (b % P)) / P) (((a / P) * (b % P)) % P)
    (((b / P) * (a % P)) / P) (((b / P) * (a % P)) % P)
    (((a % P) * (b % P)) / P) (((a % P) * (b % P)) % P)
    ((((a / P) * (b % P)) % P + ((b / P) * (a % P)) % P + ((a % P) * (b % P)) / P) / P)
    ((((a / P) * (b % P)) % P + ((b / P) * (a % P)) % P + ((a % P) * (b % P)) / P) % P)
    (Nat.div_add_mod' _ _).symm (Nat.div_add_mod' _ _).symm
    (Nat.div_add_mod' _ _).symm (Nat.div_add_mod' _ _).symm
  rw [Nat.div_add_mod' a P, Nat.div_add_mod' b P] at key
  rw [key]
  have hlt : ((((a / P) * (b % P)) % P + ((b / P) * (a % P)) % P + ((a % P) * (b % P)) / P) % P) * P
      + ((a % P) * (b % P)) % P < P * P := by
    have h1 := Nat.mod_lt
      (((a / P) * (b % P)) % P + ((b / P) * (a % P)) % P + ((a % P) * (b % P)) / P) hP
    have h2 := Nat.mod_lt ((a % P) * (b % P)) hP
    nlinarith
  have hPP : 0 < P * P := Nat.mul_pos hP hP
  rw [Nat.mul_comm _ (P * P), Nat.mul_add_div hPP, Nat.div_eq_of_lt hlt, Nat.add_zero]

/-- L6, generic half-width h: the schoolbook high half. -/
theorem mulhi_partial (h a b : ℕ) (ha : a < 2 ^ (2 * h)) (hb : b < 2 ^ (2 * h)) :
    let al := a % 2 ^ h; let ah := a / 2 ^ h; let bl := b % 2 ^ h; let bh := b / 2 ^ h
    let hh := ah * bh; let hl := ah * bl; let lh := bh * al; let ll := al * bl
    let carry := (hl % 2 ^ h + lh % 2 ^ h + ll / 2 ^ h) / 2 ^ h
    hh + hl / 2 ^ h + lh / 2 ^ h + carry = (a * b) / 2 ^ (2 * h) ∧
    hh + hl / 2 ^ h + lh / 2 ^ h + carry < 2 ^ (2 * h) := by
  intro al ah bl bh hh hl lh ll carry
  have hP : 0 < 2 ^ h := by positivity
  have hpow : 2 ^ (2 * h) = 2 ^ h * 2 ^ h := by rw [two_mul, pow_add]
  have heq : hh + hl / 2 ^ h + lh / 2 ^ h + carry = (a * b) / 2 ^ (2 * h) := by
    rw [hpow]
    exact mulhi_base (2 ^ h) a b hP
  refine ⟨heq, ?_⟩
  rw [heq]
  have hPP : 0 < 2 ^ (2 * h) := by positivity
  rw [Nat.div_lt_iff_lt_mul hPP]
  exact Nat.mul_lt_mul'' ha hb

/-- The concrete uint64_t instance (h = 32), including the no-wrap fact for the
intermediate sum inside `carry`. -/
theorem mulhi_partial_64 (a b : ℕ) (ha : a < 2 ^ 64) (hb : b < 2 ^ 64) :
    let al := a % 2 ^ 32; let ah := a / 2 ^ 32; let bl := b % 2 ^ 32; let bh := b / 2 ^ 32
    let hh := ah * bh; let hl := ah * bl; let lh := bh * al; let ll := al * bl
    let carry := (hl % 2 ^ 32 + lh % 2 ^ 32 + ll / 2 ^ 32) / 2 ^ 32
    hh + hl / 2 ^ 32 + lh / 2 ^ 32 + carry = (a * b) / 2 ^ 64 ∧
    hh + hl / 2 ^ 32 + lh / 2 ^ 32 + carry < 2 ^ 64 ∧
    hl % 2 ^ 32 + lh % 2 ^ 32 + ll / 2 ^ 32 < 3 * 2 ^ 32 := by
  intro al ah bl bh hh hl lh ll carry
  have main := mulhi_partial 32 a b (by simpa using ha) (by simpa using hb)
  refine ⟨main.1, main.2, ?_⟩
  have h1 : hl % 2 ^ 32 < 2 ^ 32 := Nat.mod_lt _ (by positivity)
  have h2 : lh % 2 ^ 32 < 2 ^ 32 := Nat.mod_lt _ (by positivity)
  have hal : al < 2 ^ 32 := Nat.mod_lt _ (by positivity)
  have hbl : bl < 2 ^ 32 := Nat.mod_lt _ (by positivity)
  have h3 : ll / 2 ^ 32 < 2 ^ 32 := by
    rw [Nat.div_lt_iff_lt_mul (by positivity)]
    exact Nat.mul_lt_mul'' hal hbl
  omega

#print axioms mulhi_partial
#print axioms mulhi_partial_64
