import Mathlib

/-! # L4 — signed Granlund–Montgomery division (reused cores copied from AvelLemmas.lean) -/

/-- core, as in Appendix B (restated so that this file is self-contained) -/
theorem gm_core (N l d n : ℕ) (hd : 0 < d) (hdl : d ≤ 2 ^ l) (hn : n < 2 ^ N) :
    ((2 ^ (N + l) / d + 1) * n) / 2 ^ (N + l) = n / d := by
  set k := 2 ^ (N + l) with hk
  have hkpos : 0 < k := by positivity
  have hkdef : k = 2 ^ N * 2 ^ l := by rw [hk, pow_add]
  have hdm : d * (k / d) + k % d = k := Nat.div_add_mod k d
  have hmod : k % d < d := Nat.mod_lt k hd
  set m' := k / d + 1 with hm'
  have hlo : k < m' * d := by
    have e : (k / d + 1) * d = d * (k / d) + d := by ring
    rw [hm', e]; omega
  have hhi : m' * d ≤ k + d := by
    have e : (k / d + 1) * d = d * (k / d) + d := by ring
    rw [hm', e]; omega
  have hnm : d * (n / d) + n % d = n := Nat.div_add_mod n d
  have hr : n % d < d := Nat.mod_lt n hd
  set q := n / d with hq
  set r := n % d with hrr
  have hdn : d * n < k := by
    rw [hkdef]
    calc d * n < d * 2 ^ N := Nat.mul_lt_mul_of_pos_left hn hd
      _ ≤ 2 ^ l * 2 ^ N := Nat.mul_le_mul_right _ hdl
      _ = 2 ^ N * 2 ^ l := by ring
  apply (Nat.div_eq_iff hkpos).2
  constructor
  · have : k * (d * q) ≤ (m' * d) * (d * q) := Nat.mul_le_mul_right _ (le_of_lt hlo)
    nlinarith [Nat.zero_le r, Nat.zero_le q, Nat.zero_le m']
  · have hmul : d * (m' * n) < d * ((q + 1) * k) := by
      have e1 : d * (m' * n) = (m' * d) * n := by ring
      have e2 : (m' * d) * n ≤ (k + d) * n := Nat.mul_le_mul_right _ hhi
      have e3 : d * ((q + 1) * k) = k * (d * q + d) := by ring
      nlinarith
    have h3 := Nat.lt_of_mul_lt_mul_left hmul
    have e4 : (q + 1) * k = q * k + k := by ring
    rw [e4] at h3
    omega

/-- negative-dividend half of the signed scheme, stated over ℕ with a = |n| (1 ≤ a ≤ 2^N):
    ⌊(m'·a − 1)/k⌋ = ⌊a/d⌋, which is what ⌊m'·n/k⌋ + 1 = −⌊(m'·a − 1)/k⌋ needs. -/
theorem gm_core_neg (N l d a : ℕ) (hd : 0 < d) (hdl : d ≤ 2 ^ l) (ha1 : 1 ≤ a) (ha : a ≤ 2 ^ N) :
    ((2 ^ (N + l) / d + 1) * a - 1) / 2 ^ (N + l) = a / d := by
  set k := 2 ^ (N + l) with hk
  have hkpos : 0 < k := by positivity
  have hkdef : k = 2 ^ N * 2 ^ l := by rw [hk, pow_add]
  have hdm : d * (k / d) + k % d = k := Nat.div_add_mod k d
  have hmod : k % d < d := Nat.mod_lt k hd
  set m' := k / d + 1 with hm'
  have hlo : k < m' * d := by
    have e : (k / d + 1) * d = d * (k / d) + d := by ring
    rw [hm', e]; omega
  have hhi : m' * d ≤ k + d := by
    have e : (k / d + 1) * d = d * (k / d) + d := by ring
    rw [hm', e]; omega
  have hnm : d * (a / d) + a % d = a := Nat.div_add_mod a d
  have hr : a % d < d := Nat.mod_lt a hd
  set q := a / d with hq
  set r := a % d with hrr
  have hda : d * a ≤ k := by
    rw [hkdef]
    calc d * a ≤ d * 2 ^ N := Nat.mul_le_mul_left _ ha
      _ ≤ 2 ^ l * 2 ^ N := Nat.mul_le_mul_right _ hdl
      _ = 2 ^ N * 2 ^ l := by ring
  have hm'pos : 0 < m' := Nat.succ_pos _
  have hpos : 1 ≤ m' * a := Nat.mul_pos hm'pos ha1
  -- strict lower bound: q*k < m'*a
  have hlow : q * k < m' * a := by
    have h1 : d * (q * k) < d * (m' * a) := by
      have e1 : d * (m' * a) = (m' * d) * a := by ring
      have e2 : k * a < (m' * d) * a := Nat.mul_lt_mul_of_pos_right hlo (by omega)
      have e3 : d * (q * k) = k * (d * q) := by ring
      have e4 : k * (d * q) ≤ k * a := Nat.mul_le_mul_left _ (by omega)
      omega
    exact Nat.lt_of_mul_lt_mul_left h1
  -- upper bound: m'*a ≤ (q+1)*k
  have hup : m' * a ≤ (q + 1) * k := by
    have h1 : d * (m' * a) ≤ d * ((q + 1) * k) := by
      have e1 : d * (m' * a) = (m' * d) * a := by ring
      have e2 : (m' * d) * a ≤ (k + d) * a := Nat.mul_le_mul_right _ hhi
      have e3 : d * ((q + 1) * k) = k * (d * q + d) := by ring
      nlinarith
    exact Nat.le_of_mul_le_mul_left h1 hd
  apply (Nat.div_eq_iff hkpos).2
  have e4 : (q + 1) * k = q * k + k := by ring
  rw [e4] at hup
  constructor <;> omega


/-- L4 (signed Granlund–Montgomery, Fig. 5.2 of the PLDI'94 paper), case |d| >= 2.
    `/` on ℤ with a positive divisor is floor division (Int.ediv); `Int.tdiv` truncates. -/
theorem gm_signed_core (N l a : ℕ) (n : ℤ)
    (hN : 2 ≤ N) (hl1 : 1 ≤ l) (hlN : l ≤ N - 1) (ha2 : 2 ≤ a) (hal : a ≤ 2 ^ l) (hlow : l = 1 ∨ 2 ^ (l - 1) < a)
    (hn1 : -(2:ℤ) ^ (N - 1) ≤ n) (hn2 : n < (2:ℤ) ^ (N - 1)) :
    let m : ℤ := ((2 ^ (N + l - 1) / a : ℕ) : ℤ) + 1
    let q0 : ℤ := (m * n) / 2 ^ N
    (2:ℤ) ^ (N - 1) < m ∧ m ≤ 2 ^ N ∧                      -- so mp = m - 2^N fits the N-bit signed field (and is <= 0)
    (n + ((m - 2 ^ N) * n) / 2 ^ N = q0) ∧                 -- the code's  n + mulhi(mp, n)  is  floor(m n / 2^N)
    (-(2:ℤ) ^ (N - 1) ≤ q0 ∧ q0 < 2 ^ (N - 1)) ∧           -- that sum does not overflow the N-bit signed range
    q0 / 2 ^ (l - 1) + (if n < 0 then 1 else 0) = Int.tdiv n a := by
  intro m q0
  have hm : m = ((2 ^ (N + l - 1) / a : ℕ) : ℤ) + 1 := rfl
  have hq0 : q0 = (m * n) / 2 ^ N := rfl
  clear_value q0 m
  have hNl : N + l - 1 = (N - 1) + l := by omega
  have hNl' : N + l - 1 = N + (l - 1) := by omega
  have hN1 : N = (N - 1) + 1 := by omega
  have ha0 : 0 < a := by omega
  have hlow' : 2 ^ (l - 1) < a := by
    rcases hlow with h | h
    · subst h
      have : 2 ^ (1 - 1) = 1 := by norm_num
      omega
    · exact h
  -- the natural-number magic quotient K = ⌊2^(N+l-1)/a⌋ satisfies 2^(N-1) ≤ K < 2^N
  have hK1 : 2 ^ (N - 1) ≤ 2 ^ (N + l - 1) / a := by
    rw [Nat.le_div_iff_mul_le ha0, hNl, pow_add]
    exact Nat.mul_le_mul_left _ hal
  have hK2 : 2 ^ (N + l - 1) / a < 2 ^ N := by
    rw [Nat.div_lt_iff_lt_mul ha0, hNl', pow_add]
    exact Nat.mul_lt_mul_of_pos_left hlow' (by positivity)
  rw [hNl] at hm hK1 hK2
  set K : ℕ := 2 ^ (N - 1 + l) / a with hK
  have hm1 : (2:ℤ) ^ (N - 1) < m := by
    have : ((2 ^ (N - 1) : ℕ) : ℤ) ≤ (K : ℤ) := by exact_mod_cast hK1
    push_cast at this
    rw [hm]; linarith
  have hm2 : m ≤ (2:ℤ) ^ N := by
    have : (K : ℤ) + 1 ≤ ((2 ^ N : ℕ) : ℤ) := by exact_mod_cast hK2
    push_cast at this
    rw [hm]; exact this
  have hP : (0:ℤ) < 2 ^ N := by positivity
  have hP1 : (0:ℤ) < 2 ^ (N - 1) := by positivity
  have hPP : (2:ℤ) ^ N = 2 * 2 ^ (N - 1) := by
    conv_lhs => rw [hN1]
    rw [pow_succ]; ring
  have hm0 : 0 < m := lt_trans hP1 hm1
  refine ⟨hm1, hm2, ?_, ?_, ?_⟩
  · -- n + ⌊(m - 2^N) n / 2^N⌋ = ⌊m n / 2^N⌋
    have e : (m - 2 ^ N) * n = m * n + 2 ^ N * (-n) := by ring
    rw [e, Int.add_mul_ediv_left _ _ (ne_of_gt hP), hq0]; ring
  · -- no overflow
    rw [hq0]
    rcases le_or_gt 0 n with hn | hn
    · constructor
      · have : 0 ≤ m * n / 2 ^ N := Int.ediv_nonneg (mul_nonneg hm0.le hn) hP.le
        linarith
      · apply Int.ediv_lt_of_lt_mul hP
        nlinarith
    · constructor
      · apply Int.le_ediv_of_mul_le hP
        nlinarith
      · have : m * n / 2 ^ N < 0 := by
          apply Int.ediv_lt_of_lt_mul hP
          nlinarith
        linarith
  · -- the quotient
    have hkk : (2:ℤ) ^ N * 2 ^ (l - 1) = ((2 ^ (N - 1 + l) : ℕ) : ℤ) := by
      push_cast
      rw [← pow_add, ← hNl', hNl]
    rw [hq0, Int.ediv_ediv_of_nonneg hP.le, hkk]
    have hmK : m = ((K + 1 : ℕ) : ℤ) := by rw [hm]; push_cast; rfl
    rcases le_or_gt 0 n with hn | hn
    · -- nonnegative dividend: unsigned theorem with N-1 dividend bits
      obtain ⟨p, rfl⟩ := Int.eq_ofNat_of_zero_le hn
      have hp : p < 2 ^ (N - 1) := by exact_mod_cast hn2
      have h := gm_core (N - 1) l a p ha0 hal hp
      rw [← hK] at h
      have hneg : ¬ ((p : ℤ) < 0) := by omega
      rw [if_neg hneg, add_zero, Int.tdiv_eq_ediv_of_nonneg hn, hmK]
      have : (((K + 1) * p / 2 ^ (N - 1 + l) : ℕ) : ℤ) = ((p / a : ℕ) : ℤ) := by rw [h]
      rw [Int.natCast_ediv, Int.natCast_ediv, Nat.cast_mul] at this
      exact this
    · -- negative dividend n = -p
      obtain ⟨p, hp⟩ := Int.eq_ofNat_of_zero_le (show 0 ≤ -n by linarith)
      have hnp : n = -(p : ℤ) := by linarith
      subst hnp
      have hp1 : 1 ≤ p := by omega
      have hp2 : p ≤ 2 ^ (N - 1) := by
        have : (p : ℤ) ≤ ((2 ^ (N - 1) : ℕ) : ℤ) := by push_cast; linarith
        exact_mod_cast this
      have h := gm_core_neg (N - 1) l a p ha0 hal hp1 hp2
      rw [← hK] at h
      rw [if_pos hn, Int.neg_tdiv, Int.tdiv_eq_ediv_of_nonneg (by positivity), hmK]
      set k : ℕ := 2 ^ (N - 1 + l) with hk
      have hkpos : 0 < k := by positivity
      set X : ℕ := (K + 1) * p with hX
      have hX1 : 1 ≤ X := Nat.mul_pos (Nat.succ_pos _) hp1
      have hdm : k * ((X - 1) / k) + (X - 1) % k = X - 1 := Nat.div_add_mod _ _
      have hmod : (X - 1) % k < k := Nat.mod_lt _ hkpos
      rw [h] at hdm
      have hXc : ((K + 1 : ℕ) : ℤ) * -(p : ℤ) = -(X : ℤ) := by rw [hX]; push_cast; ring
      rw [hXc]
      rw [← Int.natCast_ediv p a]
      generalize p / a = Q at hdm ⊢
      generalize (X - 1) % k = r at hdm hmod
      have hdm' : k * Q + r + 1 = X := by omega
      have hdmz : (k : ℤ) * (Q : ℤ) + (r : ℤ) + 1 = (X : ℤ) := by exact_mod_cast hdm'
      have hmodz : (r : ℤ) < (k : ℤ) := by exact_mod_cast hmod
      have hmodz0 : (0:ℤ) ≤ (r : ℤ) := Int.natCast_nonneg _
      have key : (-(X : ℤ)) / (k : ℤ) = -(Q : ℤ) - 1 ∧
          (-(X : ℤ)) % (k : ℤ) = (k : ℤ) - 1 - (r : ℤ) := by
        rw [Int.ediv_emod_unique (by exact_mod_cast hkpos)]
        refine ⟨?_, ?_, ?_⟩
        · linarith [hdmz, mul_comm (k : ℤ) (Q : ℤ)]
        · linarith
        · linarith
      rw [key.1]; ring

/-- COUNTEREXAMPLE to `gm_signed_one` as literally stated in the task (no range hypothesis on `n`):
    N = 2, n = 4 gives (4 + 4/4)/1 + 0 = 5 ≠ 4. The dividend must be restricted to the N-bit range. -/
theorem gm_signed_one_as_stated_is_false :
    ¬ (∀ (N : ℕ) (n : ℤ), 2 ≤ N →
      let m : ℤ := (2:ℤ) ^ N + 1
      (n + ((m - 2 ^ N) * n) / 2 ^ N) / 2 ^ (1 - 1) + (if n < 0 then 1 else 0) = n) := by
  intro h
  have := h 2 4 (le_refl _)
  norm_num at this

/-- the remaining case |d| = 1 (l = 1, m = 2^N + 1, shift amount 0): the evaluation returns n itself
    EXACTLY when -2^N ≤ n < 2^N (strongest true form; holds for every N, `2 ≤ N` is not needed). -/
theorem gm_signed_one_iff (N : ℕ) (n : ℤ) :
    let m : ℤ := (2:ℤ) ^ N + 1
    (n + ((m - 2 ^ N) * n) / 2 ^ N) / 2 ^ (1 - 1) + (if n < 0 then 1 else 0) = n
      ↔ (-(2:ℤ) ^ N ≤ n ∧ n < 2 ^ N) := by
  intro m
  have hm : m = (2:ℤ) ^ N + 1 := rfl
  clear_value m
  have hP : (0:ℤ) < 2 ^ N := by positivity
  have e : (m - 2 ^ N) * n = n := by rw [hm]; ring
  rw [e]
  simp only [Nat.sub_self, pow_zero, Int.ediv_one]
  have hdm : (2:ℤ) ^ N * (n / 2 ^ N) + n % 2 ^ N = n := Int.mul_ediv_add_emod n _
  have hr0 : 0 ≤ n % (2:ℤ) ^ N := Int.emod_nonneg _ (ne_of_gt hP)
  have hr1 : n % (2:ℤ) ^ N < 2 ^ N := Int.emod_lt_of_pos _ hP
  constructor
  · intro h
    split_ifs at h with hn
    · have hq : n / (2:ℤ) ^ N = -1 := by linarith
      rw [hq] at hdm
      constructor <;> linarith
    · have hq : n / (2:ℤ) ^ N = 0 := by linarith
      rw [hq] at hdm
      constructor <;> linarith
  · rintro ⟨h1, h2⟩
    split_ifs with hn
    · have hq : n / (2:ℤ) ^ N = -1 := by
        have h3 : -1 ≤ n / (2:ℤ) ^ N := Int.le_ediv_of_mul_le hP (by linarith)
        have h4 : n / (2:ℤ) ^ N < 0 := Int.ediv_lt_of_lt_mul hP (by linarith)
        omega
      rw [hq]; ring
    · have hq : n / (2:ℤ) ^ N = 0 := Int.ediv_eq_zero_of_lt (by linarith) h2
      rw [hq]; ring

/-- the remaining case |d| = 1, for an N-bit signed dividend (the task's statement plus the
    dividend-range hypotheses `hn1 hn2`, the same ones as in `gm_signed_core`) -/
theorem gm_signed_one (N : ℕ) (n : ℤ) (hN : 2 ≤ N)
    (hn1 : -(2:ℤ) ^ (N - 1) ≤ n) (hn2 : n < (2:ℤ) ^ (N - 1)) :
    let m : ℤ := (2:ℤ) ^ N + 1
    (n + ((m - 2 ^ N) * n) / 2 ^ N) / 2 ^ (1 - 1) + (if n < 0 then 1 else 0) = n := by
  have hN1 : N = (N - 1) + 1 := by omega
  have hP1 : (0:ℤ) < 2 ^ (N - 1) := by positivity
  have hPP : (2:ℤ) ^ N = 2 * 2 ^ (N - 1) := by
    conv_lhs => rw [hN1]
    rw [pow_succ]; ring
  exact (gm_signed_one_iff N n).2 ⟨by linarith, by linarith⟩

#print axioms gm_signed_core
#print axioms gm_signed_one_iff
#print axioms gm_signed_one
#print axioms gm_signed_one_as_stated_is_false
