import Mathlib

/-! # L1 — low half of a product from half-width partial products -/

/-- L1: the low 2h bits of a product from h-bit partial products.
    a = ah*2^h + al, b = bh*2^h + bl  ⇒  a*b ≡ al*bl + 2^h*(al*bh + ah*bl)  (mod 2^(2h)) -/
theorem mul_lo_partial (h al ah bl bh : ℕ) :
    ((ah * 2 ^ h + al) * (bh * 2 ^ h + bl)) % 2 ^ (2 * h)
      = (al * bl + 2 ^ h * (al * bh + ah * bl)) % 2 ^ (2 * h) := by
  have e : (ah * 2 ^ h + al) * (bh * 2 ^ h + bl)
      = (al * bl + 2 ^ h * (al * bh + ah * bl)) + 2 ^ (2 * h) * (ah * bh) := by
    have : (2:ℕ) ^ (2 * h) = 2 ^ h * 2 ^ h := by rw [two_mul, pow_add]
    rw [this]; ring
  rw [e, Nat.add_mul_mod_self_left]

/-- the inner sum may itself be taken mod 2^h first (that is what `paddd` + `psllq 32` do) -/
theorem mul_lo_partial' (h al ah bl bh : ℕ) :
    ((ah * 2 ^ h + al) * (bh * 2 ^ h + bl)) % 2 ^ (2 * h)
      = (al * bl + 2 ^ h * ((al * bh + ah * bl) % 2 ^ h)) % 2 ^ (2 * h) := by
  rw [mul_lo_partial]
  have hp : (2:ℕ) ^ (2 * h) = 2 ^ h * 2 ^ h := by rw [two_mul, pow_add]
  set s := al * bh + ah * bl with hs
  have hs' : s = 2 ^ h * (s / 2 ^ h) + s % 2 ^ h := (Nat.div_add_mod s (2 ^ h)).symm
  have : al * bl + 2 ^ h * s = (al * bl + 2 ^ h * (s % 2 ^ h)) + 2 ^ (2 * h) * (s / 2 ^ h) := by
    rw [hp]
    calc al * bl + 2 ^ h * s = al * bl + 2 ^ h * (2 ^ h * (s / 2 ^ h) + s % 2 ^ h) := by rw [← hs']
      _ = (al * bl + 2 ^ h * (s % 2 ^ h)) + 2 ^ h * 2 ^ h * (s / 2 ^ h) := by ring
  rw [this, Nat.add_mul_mod_self_left]

/-! # L2 — restoring (shift-subtract) division -/

/-- restoring (shift-subtract) division, bits i-1 … 0, accumulator (q, x) -/
def rdiv (d : ℕ) : ℕ → ℕ → ℕ → ℕ × ℕ
  | 0, q, x => (q, x)
  | i + 1, q, x => if d * 2 ^ i ≤ x then rdiv d i (q + 2 ^ i) (x - d * 2 ^ i) else rdiv d i q x

theorem rdiv_inv (d : ℕ) : ∀ (i q x : ℕ), x < d * 2 ^ i →
    (rdiv d i q x).1 * d + (rdiv d i q x).2 = q * d + x ∧ (rdiv d i q x).2 < d := by
  intro i
  induction i with
  | zero => intro q x hx; simp [rdiv] at *; exact hx
  | succ i ih =>
    intro q x hx
    unfold rdiv
    split_ifs with h
    · have hx' : x - d * 2 ^ i < d * 2 ^ i := by
        have : d * 2 ^ (i + 1) = d * 2 ^ i + d * 2 ^ i := by ring
        omega
      obtain ⟨h1, h2⟩ := ih (q + 2 ^ i) (x - d * 2 ^ i) hx'
      refine ⟨?_, h2⟩
      rw [h1]
      have : (q + 2 ^ i) * d = q * d + d * 2 ^ i := by ring
      omega
    · have hx' : x < d * 2 ^ i := by omega
      exact ih q x hx'

/-- L2: W rounds starting from (0, n) give quotient and remainder, for n < 2^W and d > 0 -/
theorem rdiv_correct (W d n : ℕ) (hd : 0 < d) (hn : n < 2 ^ W) :
    (rdiv d W 0 n).1 = n / d ∧ (rdiv d W 0 n).2 = n % d := by
  have hx : n < d * 2 ^ W := lt_of_lt_of_le hn (Nat.le_mul_of_pos_left _ hd)
  obtain ⟨h1, h2⟩ := rdiv_inv d W 0 n hx
  simp at h1
  set q := (rdiv d W 0 n).1
  set r := (rdiv d W 0 n).2
  have hq : n / d = q := by
    apply (Nat.div_eq_iff hd).2
    constructor <;> omega
  constructor
  · exact hq.symm
  · have := Nat.div_add_mod n d
    rw [hq] at this
    have e : d * q = q * d := Nat.mul_comm _ _
    omega

/-! # L3 — Granlund–Montgomery, unsigned -/

/-- core, as in Appendix B (restated so that this file is self-contained) -/
theorem gm_core (N l d n : ℕ) (hd : 0 < d) (hdl : d ≤ 2 ^ l) (hn : n < 2 ^ N) :
    ((2 ^ (N + l) / d + 1) * n) / 2 ^ (N + l) = n / d := by
  set k := 2 ^ (N + l) with hk
  have hkpos : 0 < k := by positivity
  have hkdef : k = 2 ^ N * 2 ^ l := by rw [hk, pow_add]
  have hdm : d * (k / d) + k % d = k := Nat.div_add_mod k d
  have hmod : k % d < d := Nat.mod_lt k hd
  set m' := k / d + 1 with hm'
  have hlo : k < m' * d := by
    have e : (k / d + 1) * d = d * (k / d) + d := by ring
    rw [hm', e]; omega
  have hhi : m' * d ≤ k + d := by
    have e : (k / d + 1) * d = d * (k / d) + d := by ring
    rw [hm', e]; omega
  have hnm : d * (n / d) + n % d = n := Nat.div_add_mod n d
  have hr : n % d < d := Nat.mod_lt n hd
  set q := n / d with hq
  set r := n % d with hrr
  have hdn : d * n < k := by
    rw [hkdef]
    calc d * n < d * 2 ^ N := Nat.mul_lt_mul_of_pos_left hn hd
      _ ≤ 2 ^ l * 2 ^ N := Nat.mul_le_mul_right _ hdl
      _ = 2 ^ N * 2 ^ l := by ring
  apply (Nat.div_eq_iff hkpos).2
  constructor
  · have : k * (d * q) ≤ (m' * d) * (d * q) := Nat.mul_le_mul_right _ (le_of_lt hlo)
    nlinarith [Nat.zero_le r, Nat.zero_le q, Nat.zero_le m']
  · have hmul : d * (m' * n) < d * ((q + 1) * k) := by
      have e1 : d * (m' * n) = (m' * d) * n := by ring
      have e2 : (m' * d) * n ≤ (k + d) * n := Nat.mul_le_mul_right _ hhi
      have e3 : d * ((q + 1) * k) = k * (d * q + d) := by ring
      nlinarith
    have h3 := Nat.lt_of_mul_lt_mul_left hmul
    have e4 : (q + 1) * k = q * k + k := by ring
    rw [e4] at h3
    omega

/-- the N-bit magic number stored by AVEL plus 2^N is the round-up reciprocal -/
theorem magic_shift (N l d : ℕ) (hd : 0 < d) (hdl : d ≤ 2 ^ l) :
    2 ^ N * (2 ^ l - d) / d + 1 + 2 ^ N = 2 ^ (N + l) / d + 1 := by
  have e : 2 ^ (N + l) = 2 ^ N * (2 ^ l - d) + 2 ^ N * d := by
    rw [← Nat.mul_add, Nat.sub_add_cancel hdl, pow_add]
  rw [e, Nat.add_mul_div_right _ _ hd]; ring

/-- the expression AVEL evaluates, (t + n) >> l with t = mulhi(m, n), is ⌊n/d⌋ -/
theorem gm_unsigned (N l d n : ℕ) (hd : 0 < d) (hdl : d ≤ 2 ^ l) (hn : n < 2 ^ N) :
    ((2 ^ N * (2 ^ l - d) / d + 1) * n / 2 ^ N + n) / 2 ^ l = n / d := by
  set m := 2 ^ N * (2 ^ l - d) / d + 1 with hm
  have h2N : 0 < 2 ^ N := by positivity
  have e1 : m * n / 2 ^ N + n = (m * n + 2 ^ N * n) / 2 ^ N := by
    rw [Nat.add_mul_div_left _ _ h2N]
  have e2 : m * n + 2 ^ N * n = (m + 2 ^ N) * n := by ring
  rw [e1, e2, Nat.div_div_eq_div_mul, ← pow_add, hm, magic_shift N l d hd hdl]
  exact gm_core N l d n hd hdl hn

/-- the magic number fits in N bits when l = ⌈log2 d⌉ (2^l < 2d, d ≤ 2^l) and d < 2^N -/
theorem magic_fits (N l d : ℕ) (hlo : 2 ^ l < 2 * d) (hdl : d ≤ 2 ^ l) (hdN : d < 2 ^ N) :
    2 ^ N * (2 ^ l - d) / d + 1 < 2 ^ N := by
  have hd : 0 < d := by
    rcases Nat.eq_zero_or_pos d with h | h
    · subst h; simp at hlo
    · exact h
  set x := 2 ^ l - d with hx
  have hxd : x + 1 ≤ d := by omega
  have key : 2 ^ N * x + d < 2 ^ N * d := by
    have h1 : 2 ^ N * (x + 1) ≤ 2 ^ N * d := Nat.mul_le_mul_left _ hxd
    have h2 : 2 ^ N * (x + 1) = 2 ^ N * x + 2 ^ N := by ring
    omega
  have e : (2 ^ N * x + d) / d = 2 ^ N * x / d + 1 := Nat.add_div_right _ hd
  rw [← e, Nat.div_lt_iff_lt_mul hd]
  exact key

/-! # L4 (arithmetic core) — negative dividends of the signed scheme -/

/-- negative-dividend half of the signed scheme, stated over ℕ with a = |n| (1 ≤ a ≤ 2^N):
    ⌊(m'·a − 1)/k⌋ = ⌊a/d⌋, which is what ⌊m'·n/k⌋ + 1 = −⌊(m'·a − 1)/k⌋ needs. -/
theorem gm_core_neg (N l d a : ℕ) (hd : 0 < d) (hdl : d ≤ 2 ^ l) (ha1 : 1 ≤ a) (ha : a ≤ 2 ^ N) :
    ((2 ^ (N + l) / d + 1) * a - 1) / 2 ^ (N + l) = a / d := by
  set k := 2 ^ (N + l) with hk
  have hkpos : 0 < k := by positivity
  have hkdef : k = 2 ^ N * 2 ^ l := by rw [hk, pow_add]
  have hdm : d * (k / d) + k % d = k := Nat.div_add_mod k d
  have hmod : k % d < d := Nat.mod_lt k hd
  set m' := k / d + 1 with hm'
  have hlo : k < m' * d := by
    have e : (k / d + 1) * d = d * (k / d) + d := by ring
    rw [hm', e]; omega
  have hhi : m' * d ≤ k + d := by
    have e : (k / d + 1) * d = d * (k / d) + d := by ring
    rw [hm', e]; omega
  have hnm : d * (a / d) + a % d = a := Nat.div_add_mod a d
  have hr : a % d < d := Nat.mod_lt a hd
  set q := a / d with hq
  set r := a % d with hrr
  have hda : d * a ≤ k := by
    rw [hkdef]
    calc d * a ≤ d * 2 ^ N := Nat.mul_le_mul_left _ ha
      _ ≤ 2 ^ l * 2 ^ N := Nat.mul_le_mul_right _ hdl
      _ = 2 ^ N * 2 ^ l := by ring
  have hm'pos : 0 < m' := Nat.succ_pos _
  have hpos : 1 ≤ m' * a := Nat.mul_pos hm'pos ha1
  -- strict lower bound: q*k < m'*a
  have hlow : q * k < m' * a := by
    have h1 : d * (q * k) < d * (m' * a) := by
      have e1 : d * (m' * a) = (m' * d) * a := by ring
      have e2 : k * a < (m' * d) * a := Nat.mul_lt_mul_of_pos_right hlo (by omega)
      have e3 : d * (q * k) = k * (d * q) := by ring
      have e4 : k * (d * q) ≤ k * a := Nat.mul_le_mul_left _ (by omega)
      omega
    exact Nat.lt_of_mul_lt_mul_left h1
  -- upper bound: m'*a ≤ (q+1)*k
  have hup : m' * a ≤ (q + 1) * k := by
    have h1 : d * (m' * a) ≤ d * ((q + 1) * k) := by
      have e1 : d * (m' * a) = (m' * d) * a := by ring
      have e2 : (m' * d) * a ≤ (k + d) * a := Nat.mul_le_mul_right _ hhi
      have e3 : d * ((q + 1) * k) = k * (d * q + d) := by ring
      nlinarith
    exact Nat.le_of_mul_le_mul_left h1 hd
  apply (Nat.div_eq_iff hkpos).2
  have e4 : (q + 1) * k = q * k + k := by ring
  rw [e4] at hup
  constructor <;> omega
/-! # L5 — Euclidean witness without a multiplier (C05 shift-subtract dividers) -/

/-- sum of the rows `d * 2^j` selected by the low `k` bits of `q` -/
def sumBits (q d : ℕ) : ℕ → ℕ
  | 0 => 0
  | (k+1) => sumBits q d k + (if q.testBit k then d * 2 ^ k else 0)

/-- positional notation: the selected rows add up to `(q mod 2^k) * d` -/
theorem sumBits_eq (q d : ℕ) : ∀ k, sumBits q d k = (q % 2 ^ k) * d := by
  intro k
  induction k with
  | zero => simp [sumBits, Nat.mod_one]
  | succ k ih =>
    rw [sumBits, ih, Nat.mod_pow_succ]
    by_cases hb : q.testBit k
    · have : q / 2 ^ k % 2 = 1 := by
        have := Nat.testBit_eq_decide_div_mod_eq (x := q) (i := k)
        simpa [hb] using this.symm
      simp [hb, this]; ring
    · have : q / 2 ^ k % 2 = 0 := by
        have h2 := Nat.testBit_eq_decide_div_mod_eq (x := q) (i := k)
        have : ¬ (q / 2 ^ k % 2 = 1) := by
          intro h; rw [h2] at hb; simp [h] at hb
        omega
      simp [hb, this]

/-- L5: what `spec_subchain` computes in 64-bit wrap-around arithmetic is `n - q*d`; if that equals an `r < d`
    (all operands below 2^32) then `(q, r)` is the truncating quotient and remainder. -/
theorem euclid_witness (n q d r : ℕ) (hn : n < 2 ^ 32) (hq : q < 2 ^ 32) (hd : d < 2 ^ 32) (hr : r < d)
    (h : (n + 2 ^ 64 - sumBits q d 32) % 2 ^ 64 = r) : q = n / d ∧ r = n % d := by
  rw [sumBits_eq, Nat.mod_eq_of_lt hq] at h
  have hqd : q * d ≤ (2 ^ 32 - 1) * (2 ^ 32 - 1) := Nat.mul_le_mul (by omega) (by omega)
  set p := q * d with hp
  have key : n = p + r := by
    by_cases hle : p ≤ n
    · have e : n + 2 ^ 64 - p = (n - p) + 2 ^ 64 := by omega
      rw [e, Nat.add_mod_right, Nat.mod_eq_of_lt (by omega)] at h
      omega
    · exfalso
      have e : n + 2 ^ 64 - p < 2 ^ 64 := by omega
      rw [Nat.mod_eq_of_lt e] at h
      norm_num at hqd
      omega
  have hdpos : 0 < d := by omega
  have h1 : n / d = q := by
    rw [key, hp]
    rw [Nat.add_comm, Nat.add_mul_div_right _ _ hdpos, Nat.div_eq_of_lt hr, Nat.zero_add]
  have h2 : n % d = r := by
    rw [key, hp, Nat.add_comm, Nat.add_mul_mod_self_right, Nat.mod_eq_of_lt hr]
  exact ⟨h1.symm, h2.symm⟩
