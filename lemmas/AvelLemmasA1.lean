import Mathlib

/-- A1: truncating the rounded quotient of two 32-bit naturals gives their integer quotient, for any rounding function with the
    three properties above (over ℝ; ℚ would do as well). -/
theorem trunc_rounded_quotient (fl : ℝ → ℝ)
    (mono : Monotone fl)
    (fix : ∀ k : ℕ, k ≤ 2 ^ 53 → fl (k : ℝ) = (k : ℝ))
    (rel : ∀ t : ℝ, 0 ≤ t → t < 2 ^ 32 → |fl t - t| ≤ t * (2 : ℝ) ^ (-(52 : ℤ)))
    (x y : ℕ) (hx : x < 2 ^ 32) (hy0 : 0 < y) (hy : y < 2 ^ 32) :
    ⌊fl ((x : ℝ) / (y : ℝ))⌋ = ((x / y : ℕ) : ℤ) := by
  -- natural-number facts
  have hdm : y * (x / y) + x % y = x := Nat.div_add_mod x y
  have hmod : x % y < y := Nat.mod_lt x hy0
  have hk_le_x : x / y ≤ x := Nat.div_le_self x y
  have hk53 : x / y ≤ 2 ^ 53 := by
    have : (2 : ℕ) ^ 32 ≤ 2 ^ 53 := by norm_num
    omega
  -- cast them to ℝ
  have hyR : (0 : ℝ) < (y : ℝ) := by exact_mod_cast hy0
  have hy1 : (1 : ℝ) ≤ (y : ℝ) := by exact_mod_cast hy0
  have hxR0 : (0 : ℝ) ≤ (x : ℝ) := Nat.cast_nonneg x
  have hxR : (x : ℝ) < 2 ^ 32 := by exact_mod_cast hx
  have hdmR : (y : ℝ) * ((x / y : ℕ) : ℝ) + ((x % y : ℕ) : ℝ) = (x : ℝ) := by exact_mod_cast hdm
  have hmodR : ((x % y : ℕ) : ℝ) + 1 ≤ (y : ℝ) := by exact_mod_cast hmod
  have hmod0 : (0 : ℝ) ≤ ((x % y : ℕ) : ℝ) := Nat.cast_nonneg _
  set k : ℝ := ((x / y : ℕ) : ℝ) with hkdef
  set r : ℝ := ((x % y : ℕ) : ℝ) with hrdef
  set t : ℝ := (x : ℝ) / (y : ℝ) with htdef
  have ht0 : 0 ≤ t := div_nonneg hxR0 hyR.le
  have hty : t * (y : ℝ) = (x : ℝ) := by
    rw [htdef]; field_simp
  have hkt : k ≤ t := by
    rw [htdef, le_div_iff₀ hyR]
    nlinarith
  have htx : t ≤ (x : ℝ) := by
    rw [htdef, div_le_iff₀ hyR]
    nlinarith
  have ht32 : t < 2 ^ 32 := lt_of_le_of_lt htx hxR
  -- lower bound
  have hlow : k ≤ fl t := by
    have h1 : fl k ≤ fl t := mono hkt
    rw [hkdef, fix (x / y) hk53] at h1
    exact h1
  -- upper bound
  have heps : (2 : ℝ) ^ (-(52 : ℤ)) = 1 / 2 ^ 52 := by
    rw [zpow_neg, one_div]; norm_cast
  have hrel := rel t ht0 ht32
  rw [abs_le, heps] at hrel
  have hup1 : fl t ≤ t + t * (1 / 2 ^ 52) := by linarith [hrel.2]
  have hup : fl t < k + 1 := by
    -- suffices (t + t/2^52) * y < (k+1) * y
    have hgoal : (t + t * (1 / 2 ^ 52)) < k + 1 := by
      have h2 : (t + t * (1 / 2 ^ 52)) * (y : ℝ) < (k + 1) * (y : ℝ) := by
        have e1 : (t + t * (1 / 2 ^ 52)) * (y : ℝ) = (x : ℝ) + (x : ℝ) * (1 / 2 ^ 52) := by
          rw [← hty]; ring
        have e2 : (x : ℝ) * (1 / 2 ^ 52) < 1 := by
          have : (x : ℝ) < 2 ^ 52 := by
            have : (2 : ℝ) ^ 32 ≤ 2 ^ 52 := by norm_num
            linarith
          rw [mul_one_div, div_lt_one (by positivity)]
          exact this
        rw [e1]
        nlinarith
      exact lt_of_mul_lt_mul_right h2 hyR.le
    linarith
  rw [Int.floor_eq_iff]
  constructor
  · push_cast
    exact hlow
  · push_cast
    exact hup

#print axioms trunc_rounded_quotient
