#!/usr/bin/env python3
"""run.py -- entry point of the AVEL contract-verification machinery.

  run.py --property C06 [--tier quick|thorough]     decide one property on /repo's working tree
  run.py --setup                                     pre-extract the quick-tier configurations
  run.py --replay FILE                               re-run a recorded counterexample on the real code
  run.py --list C06 [--config none]                  list the functions under contract

exit 0: every obligation discharged (known findings are printed as KNOWN-FINDING lines)
exit 1: a violation (VIOLATION property=<id> replay=<path>)
exit 2: undecided (timeout, extraction failure, missing model, tool error) -- never a violation
"""
import argparse, json, os, sys, time, hashlib, collections, re

ROOT = os.path.dirname(os.path.abspath(__file__))
sys.path.insert(0, os.path.join(ROOT, 'vlib'))
import pipeline as P
import families
import props as PR


def main():
    ap = argparse.ArgumentParser()
    ap.add_argument('--property')
    ap.add_argument('--tier', default=os.environ.get('VERIF_TIER', 'quick'))
    ap.add_argument('--setup', action='store_true')
    ap.add_argument('--replay')
    ap.add_argument('--list')
    ap.add_argument('--config', action='append')
    ap.add_argument('--only', help='regex on obligation identity (debugging)')
    ap.add_argument('--keep', action='store_true', help='keep scratch directory')
    ap.add_argument('--no-evidence', action='store_true')
    a = ap.parse_args()
    if a.setup:
        return PR.setup()
    if a.replay:
        import replay
        return replay.replay_file(a.replay)
    if a.list:
        return PR.list_functions(a.list, a.config or ['none'])
    if not a.property:
        ap.error('need --property')
    return PR.check_property(a.property, a.tier, configs=a.config, only=a.only, keep=a.keep, write_evidence=not a.no_evidence)


if __name__ == '__main__':
    sys.exit(main())
