"""families.py -- contract table keyed by API function family (DESIGN.md 3.5, Appendix A).

contract_for(fn, db) -> Contract | None
  fn : function record from the extraction database
A Contract carries the __CPROVER_requires / ensures / assigns clause texts for the extracted C
function, the harness parameters, the owning properties, and the C++ call expression used by the
native replay.  Post-conditions are written from the property statements over *lane views* and the
spec functions in /verif/spec; nothing here looks at function bodies.
"""
import re

ELEM = {
    'u8': (8, 'u', 'uint8_t'), 'i8': (8, 'i', 'int8_t'), 'u16': (16, 'u', 'uint16_t'), 'i16': (16, 'i', 'int16_t'),
    'u32': (32, 'u', 'uint32_t'), 'i32': (32, 'i', 'int32_t'), 'u64': (64, 'u', 'uint64_t'), 'i64': (64, 'i', 'int64_t'),
    'f32': (32, 'f', 'float'), 'f64': (64, 'f', 'double'),
}
CT2ELEM = {v[2]: k for k, v in ELEM.items()}
UNS = {8: 'uint8_t', 16: 'uint16_t', 32: 'uint32_t', 64: 'uint64_t'}
CXX_ELEM = {'u8': 'std::uint8_t', 'i8': 'std::int8_t', 'u16': 'std::uint16_t', 'i16': 'std::int16_t',
            'u32': 'std::uint32_t', 'i32': 'std::int32_t', 'u64': 'std::uint64_t', 'i64': 'std::int64_t',
            'f32': 'float', 'f64': 'double'}


class T:
    """view of a C type of the extracted text"""

    def __init__(self, ct, structs):
        self.ct = ct
        self.kind = None
        self.elem = None
        self.W = None
        self.repr = None
        self.bits = None
        self.cls = None
        self.signed = 0
        self.isfloat = False
        m = re.match(r'^(Vec|Mask)_(\w+?)_(\d+)$', ct)
        if m and m.group(2) in ELEM and ct in structs:
            self.kind = 'vec' if m.group(1) == 'Vec' else 'mask'
            self.elem = m.group(2)
            self.W = int(m.group(3))
            self.repr = structs[ct][0][1]
        elif ct in CT2ELEM:
            self.kind = 'scalar'
            self.elem = CT2ELEM[ct]
            self.W = 1
            self.repr = ct
        elif ct == '_Bool':
            self.kind = 'bool'
            self.W = 1
        if self.elem:
            self.bits, self.cls, self.cscalar = ELEM[self.elem]
            self.signed = 1 if self.cls == 'i' else 0
            self.isfloat = self.cls == 'f'

    @property
    def isint(self):
        return self.elem is not None and not self.isfloat

    def lane(self, e, i):
        """bit pattern of lane i of expression e, zero-extended to uint64_t"""
        b = self.bits
        if self.kind == 'scalar':
            v = e
        elif self.repr in ('m128', 'm256', 'm512'):
            return '((uint64_t)AVM_L%d((%s).content, %d))' % (b, e, i)
        else:
            v = '(%s).content' % e
        if self.isfloat:
            return '((uint64_t)%s(%s))' % ('avm_f2u' if b == 32 else 'avm_d2u', v)
        return '((uint64_t)(%s)(%s))' % (UNS[b], v)

    def flane(self, e, i):
        """lane i as a float/double value"""
        b = self.bits
        if self.kind == 'scalar':
            return '(%s)' % e
        if self.repr in ('m128', 'm256', 'm512'):
            return '%s(AVM_L%d((%s).content, %d))' % ('avm_u2f' if b == 32 else 'avm_u2d', b, e, i)
        return '((%s).content)' % e

    # masks
    def mrepr(self):
        if self.repr == '_Bool':
            return 'bool'
        if self.repr in ('m128', 'm256', 'm512'):
            return 'lane'
        return 'k'

    def view(self, e, i):
        r = self.mrepr()
        if self.kind == 'bool':
            return '((_Bool)(%s))' % e
        if r == 'bool':
            return '((_Bool)(%s).content)' % e
        if r == 'lane':
            return '(AVM_L%d((%s).content, %d) != 0)' % (self.bits, e, i)
        return '((_Bool)((((uint64_t)(%s).content) >> %d) & 1))' % (e, i)

    def wf(self, e):
        r = self.mrepr()
        if self.kind == 'bool' or r == 'bool':
            return '1'
        if r == 'lane':
            ones = {8: '0xffu', 16: '0xffffu', 32: '0xffffffffu', 64: '0xffffffffffffffffull'}[self.bits]
            return ' && '.join('(AVM_L%d((%s).content, %d) == 0 || AVM_L%d((%s).content, %d) == %s)' % (
                self.bits, e, i, self.bits, e, i, ones) for i in range(self.W))
        kb = {'uint8_t': 8, 'uint16_t': 16, 'uint32_t': 32, 'uint64_t': 64}[self.repr]
        if self.W < kb:
            return '((((uint64_t)(%s).content) >> %d) == 0)' % (e, self.W)
        return '1'

    def cxx(self):
        if self.kind == 'vec':
            return 'avel::Vector<%s, %d>' % (CXX_ELEM[self.elem], self.W)
        if self.kind == 'mask':
            return 'avel::Vector_mask<%s, %d>' % (CXX_ELEM[self.elem], self.W)
        if self.kind == 'scalar':
            return CXX_ELEM[self.elem]
        if self.kind == 'bool':
            return 'bool'
        return None


class Contract:
    def __init__(self, family, props, requires=None, ensures=None, assigns=None, cxx=None, fresh=None,
                 heavy=False, note=None, flags=None, loops=None, setup=None):
        self.family = family
        self.props = props
        self.requires = requires or []
        self.ensures = ensures or []       # list of (label, expr)
        self.assigns = assigns or []
        self.cxx = cxx
        self.fresh = fresh or []           # [(ptr expr, size expr)]
        self.heavy = heavy
        self.note = note
        self.flags = flags or []
        self.loops = loops or {}
        self.setup = setup or []

    def split(self):
        """one contract per lane post-condition (multiplicative obligations are discharged one lane per solver call)"""
        import copy
        lane = [(l, e) for l, e in self.ensures if re.search(r'lane \d+$', l)]
        rest = [(l, e) for l, e in self.ensures if not re.search(r'lane \d+$', l)]
        if 'split' not in self.flags or len(lane) < 2:
            return [self]
        out = []
        for i, le in enumerate(lane):
            c = copy.copy(self)
            c.ensures = [le] + (rest if i == 0 else [])
            c.part = i
            out.append(c)
        return out

    def clauses(self):
        out = []
        reqs = list(self.requires)
        for p, sz in self.fresh:
            reqs.append('__CPROVER_is_fresh(%s, %s)' % (p, sz))
        if not reqs:
            reqs = ['1']
        for r in reqs:
            out.append('__CPROVER_requires(%s)' % r)
        if not self.ensures:
            out.append('__CPROVER_ensures(1)')
        for lab, e in self.ensures:
            out.append('__CPROVER_ensures(%s) /* %s */' % (e, lab))
        out.append('__CPROVER_assigns(%s)' % '; '.join(self.assigns))
        return '\n'.join(out) + '\n'


RV = '__CPROVER_return_value'


def OLD(e):
    return '__CPROVER_old(%s)' % e


def pexpr(p):
    return '(*%s)' % p['name'] if p['ref'] else p['name']


class Ctx:
    def __init__(self, fn, db):
        self.fn = fn
        self.db = db
        self.S = db['structs']
        self.P = fn['params']
        self.PT = [T(p['ctype'].rstrip('*') if p['ref'] else p['ctype'], self.S) for p in self.P]
        self.RT = T(fn['ret'].rstrip('*') if fn.get('ret_ref') else fn['ret'], self.S) if fn.get('ret') else None
        self.OT = T(fn['owner'], self.S) if fn.get('owner') else None
        self.name = fn['name']
        self.kind = fn['kind']
        self.targs = fn.get('targs', [])

    def a(self, i):
        return pexpr(self.P[i])


def eq_lane(t, lhs_e, i, spec):
    m = re.match(r'^spec_mul\((.*), (\d+)\)$', spec)
    if m:
        return 'spec_mul_ok(%s, %s, %s)' % (t.lane(lhs_e, i), m.group(1), m.group(2))
    return '%s == (%s)' % (t.lane(lhs_e, i), spec)


FAMILIES = []


def family(f):
    FAMILIES.append(f)
    return f


# --------------------------------------------------------------------------------------------
# generic shapes
# --------------------------------------------------------------------------------------------
def same_vec_params(c, n):
    """n parameters, all the same vector/scalar element-carrying type"""
    if len(c.P) != n:
        return None
    t = c.PT[0]
    if t.kind not in ('vec', 'scalar') or any(p['ref'] for p in c.P):
        return None
    if any(x.ct != t.ct for x in c.PT):
        return None
    return t


def lanewise_fn(c, t, spec_of, props, family_name, cxx, rt=None, req=None, per_lane_guard=None, heavy=False, flags=None):
    """free function R f(V a, V b, ...): per lane i  ret[i] == spec_of(i)"""
    rt = rt or c.RT
    ens = []
    for i in range(t.W):
        s = spec_of(i)
        e = eq_lane(rt, RV, i, s)
        if per_lane_guard:
            e = '!(%s) || (%s)' % (per_lane_guard(i), e)
        ens.append(('%s lane %d' % (family_name, i), e))
    return Contract(family_name, props, requires=req or [], ensures=ens, assigns=[], cxx=cxx, heavy=heavy, flags=flags)


def compound_method(c, t, spec_of, props, family_name, cxx, req=None, per_lane_guard=None, heavy=False, flags=None):
    """V& V::op=(X rhs): per lane  (*this)'[i] == spec_of(i) over old(*this) and rhs; returns this"""
    ens = []
    for i in range(t.W):
        e = eq_lane(t, '(*this)', i, spec_of(i))
        if per_lane_guard:
            e = '!(%s) || (%s)' % (per_lane_guard(i), e)
        ens.append(('%s lane %d' % (family_name, i), e))
    ens.append(('%s returns *this' % family_name, '%s == this' % RV))
    return Contract(family_name, props, requires=req or [], ensures=ens, assigns=['*this'],
                    fresh=[('this', 'sizeof(*this)')], cxx=cxx, heavy=heavy, flags=flags)


def scalar_props(t, vec_props):
    """scalar overloads belong to C16 (and to the family's own property for the <bit> functions)"""
    return vec_props


# --------------------------------------------------------------------------------------------
# C01  integer + - * , unary -, ++ --
# --------------------------------------------------------------------------------------------
ARITH = {'operator+=': ('spec_add', '+='), 'operator-=': ('spec_sub', '-='), 'operator*=': ('spec_mul', '*=')}
ARITH_BIN = {'operator+': ('spec_add', '+'), 'operator-': ('spec_sub', '-'), 'operator*': ('spec_mul', '*')}


def mul_flags(t, name):
    if 'mul' in name or '*' in name:
        return ['mul', 'split'] if (t.bits >= 32 and t.W > 1) else (['mul'] if t.bits >= 32 else [])
    return []


@family
def f_int_arith(c):
    if c.kind == 'method' and c.name in ARITH and c.OT and c.OT.kind == 'vec' and c.OT.isint and len(c.P) == 1 and c.PT[0].ct == c.OT.ct:
        t = c.OT
        sp, op = ARITH[c.name]
        return compound_method(c, t, lambda i: '%s(%s, %s, %d)' % (sp, OLD(t.lane('(*this)', i)), t.lane(c.a(0), i), t.bits),
                               ['C01'], 'int_' + c.name, '({this} %s {0})' % op, heavy=(sp == 'spec_mul' and t.bits >= 32),
                               flags=mul_flags(t, sp))
    if c.kind == 'function' and c.name in ARITH_BIN and len(c.P) == 2:
        t = same_vec_params(c, 2)
        if t and t.kind == 'vec' and t.isint and c.RT.ct == t.ct:
            sp, op = ARITH_BIN[c.name]
            return lanewise_fn(c, t, lambda i: '%s(%s, %s, %d)' % (sp, t.lane(c.a(0), i), t.lane(c.a(1), i), t.bits),
                               ['C01'], 'int_' + c.name, '({0} %s {1})' % op, heavy=(sp == 'spec_mul' and t.bits >= 32),
                               flags=mul_flags(t, sp))
    if c.kind == 'method' and c.name in ('operator-', 'operator+') and len(c.P) == 0 and c.OT and c.OT.kind == 'vec' and c.OT.isint:
        t = c.OT
        if c.RT.ct != t.ct:
            return None
        sp = 'spec_neg(%s, %d)' if c.name == 'operator-' else 'spec_trunc(%s, %d)'
        ens = [('int unary %s lane %d' % (c.name, i), eq_lane(t, RV, i, sp % (t.lane('(*this)', i), t.bits))) for i in range(t.W)]
        return Contract('int_unary_' + c.name, ['C01'], ensures=ens, assigns=[], fresh=[('this', 'sizeof(*this)')],
                        cxx='(%s{this})' % c.name[-1])
    if c.kind == 'method' and c.name in ('operator++', 'operator--') and c.OT and c.OT.kind == 'vec' and c.OT.isint:
        t = c.OT
        sp = 'spec_add' if c.name == 'operator++' else 'spec_sub'
        ens = [('%s lane %d' % (c.name, i), eq_lane(t, '(*this)', i, '%s(%s, 1, %d)' % (sp, OLD(t.lane('(*this)', i)), t.bits)))
               for i in range(t.W)]
        if len(c.P) == 0:
            ens.append(('pre-form returns *this', '%s == this' % RV))
            cxx = '(%s{this})' % c.name[-2:]
        else:
            ens += [('post-form returns the old value lane %d' % i, eq_lane(t, RV, i, OLD(t.lane('(*this)', i)))) for i in range(t.W)]
            cxx = '({this}%s)' % c.name[-2:]
        return Contract('int_' + c.name + ('_post' if c.P else '_pre'), ['C01'], ensures=ens, assigns=['*this'],
                        fresh=[('this', 'sizeof(*this)')], cxx=cxx)
    return None


# --------------------------------------------------------------------------------------------
# C02  comparisons
# --------------------------------------------------------------------------------------------
CMP = {'operator==': '==', 'operator!=': '!=', 'operator<': '<', 'operator<=': '<=', 'operator>': '>', 'operator>=': '>='}


def cmp_expr(t, op, a, b, i):
    if t.isfloat:
        return '(%s %s %s)' % (t.flane(a, i), op, t.flane(b, i))
    if t.signed:
        return '(spec_sx(%s, %d) %s spec_sx(%s, %d))' % (t.lane(a, i), t.bits, op, t.lane(b, i), t.bits)
    return '(%s %s %s)' % (t.lane(a, i), op, t.lane(b, i))


@family
def f_cmp(c):
    if c.kind == 'function' and c.name in CMP and len(c.P) == 2:
        t = same_vec_params(c, 2)
        if t and t.kind == 'vec' and c.RT.kind == 'mask' and c.RT.W == t.W:
            op = CMP[c.name]
            ens = [('mask well-formed', c.RT.wf(RV))]
            ens += [('cmp %s lane %d' % (op, i), '%s == %s' % (c.RT.view(RV, i), cmp_expr(t, op, c.a(0), c.a(1), i)))
                    for i in range(t.W)]
            return Contract('cmp_' + c.name, ['C02'], ensures=ens, assigns=[], cxx='({0} %s {1})' % op)
    return None


# --------------------------------------------------------------------------------------------
# C06  <bit> functions (vectors and scalars)
# --------------------------------------------------------------------------------------------
BITFN = {'popcount': 'spec_popcount', 'countl_zero': 'spec_countl_zero', 'countl_one': 'spec_countl_one',
         'countr_zero': 'spec_countr_zero', 'countr_one': 'spec_countr_one', 'bit_width': 'spec_bit_width',
         'bit_floor': 'spec_bit_floor', 'bit_ceil': 'spec_bit_ceil', 'byteswap': 'spec_byteswap',
         'countl_sign': 'spec_countl_sign'}


@family
def f_bitfn(c):
    if c.kind != 'function' or len(c.P) != 1 or c.P[0]['ref']:
        return None
    t = c.PT[0]
    if t.kind not in ('vec', 'scalar') or not t.isint:
        return None
    props = ['C06'] + (['C16'] if t.kind == 'scalar' else [])
    if c.name in BITFN and c.RT.ct == t.ct:
        sp = BITFN[c.name]
        return lanewise_fn(c, t, lambda i: '%s(%s, %d) & spec_mask(%d)' % (sp, t.lane(c.a(0), i), t.bits, t.bits),
                           props, 'bit_' + c.name, 'avel::%s({0})' % c.name)
    if c.name == 'has_single_bit':
        if t.kind == 'scalar' and c.RT.kind == 'bool':
            return Contract('bit_has_single_bit', props, ensures=[('has_single_bit', '%s == (_Bool)spec_has_single_bit(%s, %d)' % (
                RV, t.lane(c.a(0), 0), t.bits))], assigns=[], cxx='avel::has_single_bit({0})')
        if t.kind == 'vec' and c.RT.kind == 'mask' and c.RT.W == t.W:
            ens = [('mask well-formed', c.RT.wf(RV))]
            ens += [('has_single_bit lane %d' % i, '%s == (_Bool)spec_has_single_bit(%s, %d)' % (c.RT.view(RV, i), t.lane(c.a(0), i), t.bits))
                    for i in range(t.W)]
            return Contract('bit_has_single_bit', props, ensures=ens, assigns=[], cxx='avel::has_single_bit({0})')
    return None


def contract_for(fn, db):
    if fn.get('error'):
        return None
    c = Ctx(fn, db)
    for f in FAMILIES:
        r = f(c)
        if r is not None:
            return r
    return None


# names of API functions per property: a function with one of these names that fails to extract is
# reported as an extraction problem for that property (never silently skipped)
PROPERTY_NAMES = {
    'C01': set(ARITH) | set(ARITH_BIN) | {'operator++', 'operator--'},
    'C02': set(CMP),
    'C06': set(BITFN) | {'has_single_bit'},
}


def name_in_property(name, prop):
    return name in PROPERTY_NAMES.get(prop, ())
