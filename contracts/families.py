"""families.py -- contract table keyed by API function family (DESIGN.md 3.5, Appendix A).

contract_for(fn, db) -> Contract | None
  fn : function record from the extraction database
A Contract carries the __CPROVER_requires / ensures / assigns clause texts for the extracted C
function, the harness parameters, the owning properties, and the C++ call expression used by the
native replay.  Post-conditions are written from the property statements over *lane views* and the
spec functions in /verif/spec; nothing here looks at function bodies.
"""
import re

ELEM = {
    'u8': (8, 'u', 'uint8_t'), 'i8': (8, 'i', 'int8_t'), 'u16': (16, 'u', 'uint16_t'), 'i16': (16, 'i', 'int16_t'),
    'u32': (32, 'u', 'uint32_t'), 'i32': (32, 'i', 'int32_t'), 'u64': (64, 'u', 'uint64_t'), 'i64': (64, 'i', 'int64_t'),
    'f32': (32, 'f', 'float'), 'f64': (64, 'f', 'double'),
}
CT2ELEM = {v[2]: k for k, v in ELEM.items()}
UNS = {8: 'uint8_t', 16: 'uint16_t', 32: 'uint32_t', 64: 'uint64_t'}
CXX_ELEM = {'u8': 'std::uint8_t', 'i8': 'std::int8_t', 'u16': 'std::uint16_t', 'i16': 'std::int16_t',
            'u32': 'std::uint32_t', 'i32': 'std::int32_t', 'u64': 'std::uint64_t', 'i64': 'std::int64_t',
            'f32': 'float', 'f64': 'double'}


class T:
    """view of a C type of the extracted text"""

    def __init__(self, ct, structs):
        self.ct = ct
        self.kind = None
        self.elem = None
        self.W = None
        self.repr = None
        self.bits = None
        self.cls = None
        self.signed = 0
        self.isfloat = False
        m = re.match(r'^(Vec|Mask)_(\w+?)_(\d+)$', ct)
        if m and m.group(2) in ELEM and ct in structs:
            self.kind = 'vec' if m.group(1) == 'Vec' else 'mask'
            self.elem = m.group(2)
            self.W = int(m.group(3))
            self.repr = structs[ct][0][1]
        elif ct in CT2ELEM:
            self.kind = 'scalar'
            self.elem = CT2ELEM[ct]
            self.W = 1
            self.repr = ct
        elif ct == '_Bool':
            self.kind = 'bool'
            self.W = 1
        if self.elem:
            self.bits, self.cls, self.cscalar = ELEM[self.elem]
            self.signed = 1 if self.cls == 'i' else 0
            self.isfloat = self.cls == 'f'

    @property
    def isint(self):
        return self.elem is not None and not self.isfloat

    def lane(self, e, i):
        """bit pattern of lane i of expression e, zero-extended to uint64_t"""
        b = self.bits
        if self.kind == 'scalar':
            v = e
        elif self.repr in ('m128', 'm256', 'm512'):
            return '((uint64_t)AVM_L%d((%s).content, %d))' % (b, e, i)
        else:
            v = '(%s).content' % e
        if self.isfloat:
            return '((uint64_t)%s(%s))' % ('avm_f2u' if b == 32 else 'avm_d2u', v)
        return '((uint64_t)(%s)(%s))' % (UNS[b], v)

    def flane(self, e, i):
        """lane i as a float/double value"""
        b = self.bits
        if self.kind == 'scalar':
            return '(%s)' % e
        if self.repr in ('m128', 'm256', 'm512'):
            return '%s(AVM_L%d((%s).content, %d))' % ('avm_u2f' if b == 32 else 'avm_u2d', b, e, i)
        return '((%s).content)' % e

    # masks
    def mrepr(self):
        if self.repr == '_Bool':
            return 'bool'
        if self.repr in ('m128', 'm256', 'm512'):
            return 'lane'
        return 'k'

    def view(self, e, i):
        r = self.mrepr()
        if self.kind == 'bool':
            return '((_Bool)(%s))' % e
        if r == 'bool':
            return '((_Bool)(%s).content)' % e
        if r == 'lane':
            return '(AVM_L%d((%s).content, %d) != 0)' % (self.bits, e, i)
        return '((_Bool)((((uint64_t)(%s).content) >> %d) & 1))' % (e, i)

    def view_old(self, e, i):
        """view of lane i in the pre-state (__CPROVER_old applied to the stored bits only)"""
        r = self.mrepr()
        if r == 'bool':
            return '((_Bool)%s)' % OLD('(%s).content' % e)
        if r == 'lane':
            return '(%s != 0)' % OLD('AVM_L%d((%s).content, %d)' % (self.bits, e, i))
        return '((_Bool)((((uint64_t)%s) >> %d) & 1))' % (OLD('(%s).content' % e), i)

    def wf(self, e):
        r = self.mrepr()
        if self.kind == 'bool':
            return BOOL_OK(e)
        if r == 'bool':
            return BOOL_OK('(%s).content' % e)
        if r == 'lane':
            ones = {8: '0xffu', 16: '0xffffu', 32: '0xffffffffu', 64: '0xffffffffffffffffull'}[self.bits]
            return ' && '.join('(AVM_L%d((%s).content, %d) == 0 || AVM_L%d((%s).content, %d) == %s)' % (
                self.bits, e, i, self.bits, e, i, ones) for i in range(self.W))
        kb = {'uint8_t': 8, 'uint16_t': 16, 'uint32_t': 32, 'uint64_t': 64, 'unsigned long long': 64}[self.repr]
        if self.W < kb:
            return '((((uint64_t)(%s).content) >> %d) == 0)' % (e, self.W)
        return '1'

    def cxx(self):
        if self.kind == 'vec':
            return 'avel::Vector<%s, %d>' % (CXX_ELEM[self.elem], self.W)
        if self.kind == 'mask':
            return 'avel::Vector_mask<%s, %d>' % (CXX_ELEM[self.elem], self.W)
        if self.kind == 'scalar':
            return CXX_ELEM[self.elem]
        if self.kind == 'bool':
            return 'bool'
        return None


def BOOL_OK(e):
    """a C++ bool object holds 0 or 1 (type invariant of the input; CBMC's nondet _Bool is any byte)"""
    return '(AVM_BITCAST(uint8_t, _Bool, %s) <= 1)' % e


class Contract:
    def __init__(self, family, props, requires=None, ensures=None, assigns=None, cxx=None, fresh=None,
                 heavy=False, note=None, flags=None, loops=None, setup=None):
        self.family = family
        self.props = props
        self.requires = requires or []
        self.ensures = ensures or []       # list of (label, expr)
        self.assigns = assigns or []
        self.cxx = cxx
        self.fresh = fresh or []           # [(ptr expr, size expr)]
        self.heavy = heavy
        self.note = note
        self.flags = flags or []
        self.loops = loops or {}
        self.setup = setup or []
        self.defines = []
        self.partial = None    # description of the restricted input domain, if the obligation is partial-domain only

    def split(self, tier='thorough'):
        """one contract per lane post-condition (multiplicative obligations are discharged one lane per solver call);
        partial-domain division: one contract per constant divisor"""
        import copy
        if getattr(self, 'far', None):
            # gather / scatter: the small-object obligation(s) plus the far-index twin (quick tier: up to 4 lanes)
            me = copy.copy(self)
            me.far = None
            far = self.far
            return me.split(tier) + ([] if (tier == 'quick' and far.far_W > 4) else far.split(tier))
        if getattr(self, 'denom', None):
            return denom_variants(self, tier)
        if getattr(self, 'ctor_consts', None):
            out = [self]
            for v, req, ens in self.ctor_consts:
                if tier == 'quick' and v not in self.ctor_quick:
                    continue
                c = copy.copy(self)
                c.ctor_consts = None
                c.requires = [req]
                c.ensures = ens
                c.part = 'd=%d: stored parameters (concrete evaluation)' % v
                c.partial = 'constructor parameters compared with the Granlund-Montgomery definition for the listed constant divisors only'
                c.defines = []
                out.append(c)
            return out
        if getattr(self, 'div_consts', None) and tier == 'thorough' and getattr(self, 'div_full_lanes', False):
            # 8-bit SIMD lanes, thorough tier: FULL DOMAIN, one lane's post-condition per solver call -- every dividend and
            # every divisor of that lane, the other lanes' operands unconstrained (80-110 s per lane): a proof, not a lattice
            out = []
            nlanes = max(int(re.search(r'lane (\d+)$', l).group(1)) for l, e in self.ensures if re.search(r'lane (\d+)$', l)) + 1
            for i in range(nlanes):
                c = copy.copy(self)
                c.ensures = [(l, e) for l, e in self.ensures if not re.search(r'lane (\d+)$', l) or int(re.search(r'lane (\d+)$', l).group(1)) == i]
                c.part = 'lane %d, all dividends and divisors' % i
                c.partial = None
                c.div_consts = None
                out.append(c)
            return out
        if getattr(self, 'div_consts', None):
            out = []
            for v, reqs, lanes, tag in self.div_consts:
                if tier == 'quick' and v not in self.div_quick:
                    continue
                # the operator forms forward to div(): in the quick tier one pinned divisor shows the forwarding, div()
                # itself carries the quick lattice; the thorough tier runs the whole lattice for every form
                if tier == 'quick' and self.family != 'int_div' and not (v == 3 and tag == 'even lanes'):
                    continue
                c = copy.copy(self)
                c.requires = list(self.requires) + reqs
                # post-conditions of the lanes whose divisor is pinned; the other lanes' divisors are unconstrained (zero included)
                c.ensures = [(l, e) for l, e in self.ensures if not re.search(r'lane (\d+)$', l) or int(re.search(r'lane (\d+)$', l).group(1)) in lanes]
                c.part = 'd=%d %s' % (v, tag)
                out.append(c)
            return out
        lane = [(l, e) for l, e in self.ensures if re.search(r'lane \d+$', l)]
        rest = [(l, e) for l, e in self.ensures if not re.search(r'lane \d+$', l)]
        if 'split' not in self.flags or len(lane) < 2:
            return [self]
        out = []
        for i, le in enumerate(lane):
            c = copy.copy(self)
            c.ensures = [le] + (rest if i == 0 else [])
            c.part = i
            out.append(c)
        return out

    def clauses(self):
        out = []
        reqs = list(self.requires)
        for p, sz in self.fresh:
            reqs.append('__CPROVER_is_fresh(%s, %s)' % (p, sz))
        # representation invariant of the ghost FP environment: rounding control lives in __CPROVER_rounding_mode only
        reqs.append('(model_mxcsr & 0x6000u) == 0 && __CPROVER_rounding_mode >= 0 && __CPROVER_rounding_mode < 4')
        for r in reqs:
            out.append('__CPROVER_requires(%s)' % r)
        if not self.ensures:
            out.append('__CPROVER_ensures(1)')
        for lab, e in self.ensures:
            out.append('__CPROVER_ensures(%s) /* %s */' % (e, lab))
        out.append('__CPROVER_ensures(model_mxcsr == __CPROVER_old(model_mxcsr) && __CPROVER_rounding_mode == __CPROVER_old(__CPROVER_rounding_mode)) /* C11: floating-point environment left as found */')
        out.append('__CPROVER_assigns(%s)' % '; '.join(list(self.assigns) + ['model_mxcsr', '__CPROVER_rounding_mode']))
        if getattr(self, 'frees', None):
            out.append('__CPROVER_frees(%s)' % '; '.join(self.frees))
        return '\n'.join(out) + '\n'


RV = '__CPROVER_return_value'


def OLD(e):
    return '__CPROVER_old(%s)' % e


def pexpr(p):
    return '(*%s)' % p['name'] if p['ref'] else p['name']


class Ctx:
    def __init__(self, fn, db):
        self.fn = fn
        self.db = db
        self.S = db['structs']
        self.P = fn['params']
        self.PT = [T(p['ctype'].rstrip('*') if p['ref'] else p['ctype'], self.S) for p in self.P]
        self.RT = T(fn['ret'].rstrip('*') if fn.get('ret_ref') else fn['ret'], self.S) if fn.get('ret') else None
        self.OT = T(fn['owner'], self.S) if fn.get('owner') else None
        self.name = fn['name']
        self.kind = fn['kind']
        self.targs = fn.get('targs', [])

    def a(self, i):
        return pexpr(self.P[i])


def eq_lane(t, lhs_e, i, spec):
    m = re.match(r'^spec_mul\((.*), (\d+)\)$', spec)
    if m:
        return 'spec_mul_ok(%s, %s, %s)' % (t.lane(lhs_e, i), m.group(1), m.group(2))
    m = re.match(r'^spec_(u|s)(div|rem)\((.*), (\d+)\)$', spec)
    if m:
        return 'spec_div_ok(%s, %s, %s, %d, %d)' % (t.lane(lhs_e, i), m.group(3), m.group(4), 1 if m.group(1) == 's' else 0, 1 if m.group(2) == 'rem' else 0)
    return '%s == (%s)' % (t.lane(lhs_e, i), spec)


FAMILIES = []


def family(f):
    FAMILIES.append(f)
    return f


# --------------------------------------------------------------------------------------------
# generic shapes
# --------------------------------------------------------------------------------------------
def same_vec_params(c, n):
    """n parameters, all the same vector/scalar element-carrying type"""
    if len(c.P) != n:
        return None
    t = c.PT[0]
    if t.kind not in ('vec', 'scalar') or any(p['ref'] for p in c.P):
        return None
    if any(x.ct != t.ct for x in c.PT):
        return None
    return t


def lanewise_fn(c, t, spec_of, props, family_name, cxx, rt=None, req=None, per_lane_guard=None, heavy=False, flags=None):
    """free function R f(V a, V b, ...): per lane i  ret[i] == spec_of(i)"""
    rt = rt or c.RT
    ens = []
    for i in range(t.W):
        s = spec_of(i)
        e = eq_lane(rt, RV, i, s)
        if per_lane_guard:
            e = '!(%s) || (%s)' % (per_lane_guard(i), e)
        ens.append(('%s lane %d' % (family_name, i), e))
    return Contract(family_name, props, requires=req or [], ensures=ens, assigns=[], cxx=cxx, heavy=heavy, flags=flags)


def compound_method(c, t, spec_of, props, family_name, cxx, req=None, per_lane_guard=None, heavy=False, flags=None):
    """V& V::op=(X rhs): per lane  (*this)'[i] == spec_of(i) over old(*this) and rhs; returns this"""
    ens = []
    for i in range(t.W):
        e = eq_lane(t, '(*this)', i, spec_of(i))
        if per_lane_guard:
            e = '!(%s) || (%s)' % (per_lane_guard(i), e)
        ens.append(('%s lane %d' % (family_name, i), e))
    if c.fn.get('ret_ref'):
        ens.append(('%s returns *this' % family_name, '%s == this' % RV))
    elif c.RT is not None and c.RT.ct == t.ct:
        # a few compound operators (vec8x32i / vec16x32i <<=, >>=) return Vector by value: the copy equals *this
        ens += [('%s returns a copy of *this lane %d' % (family_name, i), '%s == %s' % (t.lane(RV, i), t.lane('(*this)', i))) for i in range(t.W)]
    return Contract(family_name, props, requires=req or [], ensures=ens, assigns=['*this'],
                    cxx=cxx, heavy=heavy, flags=flags)


def scalar_props(t, vec_props):
    """scalar overloads belong to C16 (and to the family's own property for the <bit> functions)"""
    return vec_props


# --------------------------------------------------------------------------------------------
# C01  integer + - * , unary -, ++ --
# --------------------------------------------------------------------------------------------
ARITH = {'operator+=': ('spec_add', '+='), 'operator-=': ('spec_sub', '-='), 'operator*=': ('spec_mul', '*=')}
ARITH_BIN = {'operator+': ('spec_add', '+'), 'operator-': ('spec_sub', '-'), 'operator*': ('spec_mul', '*')}


def mul_flags(t, name):
    if 'mul' in name or '*' in name:
        return ['mul', 'split'] if (t.bits >= 32 and t.W > 1) else (['mul'] if t.bits >= 32 else [])
    return []


@family
def f_int_arith(c):
    if c.kind == 'method' and c.name in ARITH and c.OT and c.OT.kind == 'vec' and c.OT.isint and len(c.P) == 1 and c.PT[0].ct == c.OT.ct:
        t = c.OT
        sp, op = ARITH[c.name]
        return compound_method(c, t, lambda i: '%s(%s, %s, %d)' % (sp, OLD(t.lane('(*this)', i)), t.lane(c.a(0), i), t.bits),
                               ['C01'], 'int_' + c.name, '({this} %s {0})' % op, heavy=(sp == 'spec_mul' and t.bits >= 32),
                               flags=mul_flags(t, sp))
    if c.kind == 'function' and c.name in ARITH_BIN and len(c.P) == 2:
        t = same_vec_params(c, 2)
        if t and t.kind == 'vec' and t.isint and c.RT.ct == t.ct:
            sp, op = ARITH_BIN[c.name]
            k = lanewise_fn(c, t, lambda i: '%s(%s, %s, %d)' % (sp, t.lane(c.a(0), i), t.lane(c.a(1), i), t.bits),
                               ['C01'], 'int_' + c.name, '({0} %s {1})' % op, heavy=(sp == 'spec_mul' and t.bits >= 32),
                               flags=mul_flags(t, sp))
            if sp == 'spec_mul' and t.bits >= 16:
                fw = compound_forwarding(c, t, k, 'operator*=')
                if fw:
                    return fw
            return k
    if c.kind == 'function' and c.name == 'operator-' and len(c.P) == 1 and c.PT[0].kind == 'vec' and c.PT[0].isint and not c.P[0]['ref'] \
            and c.RT and c.RT.kind == 'vec' and c.RT.isint and c.RT.W == c.PT[0].W and c.RT.bits == c.PT[0].bits:
        t = c.PT[0]
        ens = [('int unary minus lane %d' % i, eq_lane(c.RT, RV, i, 'spec_neg(%s, %d)' % (t.lane(c.a(0), i), t.bits))) for i in range(t.W)]
        return Contract('int_unary_minus_free', ['C01'], ensures=ens, assigns=[], cxx='(-{0})')
    if c.kind == 'method' and c.name in ('operator-', 'operator+') and len(c.P) == 0 and c.OT and c.OT.kind == 'vec' and c.OT.isint:
        t = c.OT
        if c.RT.ct != t.ct:
            return None
        sp = 'spec_neg(%s, %d)' if c.name == 'operator-' else 'spec_trunc(%s, %d)'
        ens = [('int unary %s lane %d' % (c.name, i), eq_lane(t, RV, i, sp % (t.lane('(*this)', i), t.bits))) for i in range(t.W)]
        return Contract('int_unary_' + c.name, ['C01'], ensures=ens, assigns=[],
                        cxx='(%s{this})' % c.name[-1])
    if c.kind == 'method' and c.name in ('operator++', 'operator--') and c.OT and c.OT.kind == 'vec' and c.OT.isint:
        t = c.OT
        sp = 'spec_add' if c.name == 'operator++' else 'spec_sub'
        ens = [('%s lane %d' % (c.name, i), eq_lane(t, '(*this)', i, '%s(%s, 1, %d)' % (sp, OLD(t.lane('(*this)', i)), t.bits)))
               for i in range(t.W)]
        if len(c.P) == 0:
            ens.append(('pre-form returns *this', '%s == this' % RV))
            cxx = '(%s{this})' % c.name[-2:]
        else:
            ens += [('post-form returns the old value lane %d' % i, eq_lane(t, RV, i, OLD(t.lane('(*this)', i)))) for i in range(t.W)]
            cxx = '({this}%s)' % c.name[-2:]
        return Contract('int_' + c.name + ('_post' if c.P else '_pre'), ['C01'], ensures=ens, assigns=['*this'],
                        cxx=cxx)
    return None


# --------------------------------------------------------------------------------------------
# C02  comparisons
# --------------------------------------------------------------------------------------------
CMP = {'operator==': '==', 'operator!=': '!=', 'operator<': '<', 'operator<=': '<=', 'operator>': '>', 'operator>=': '>='}


def cmp_expr(t, op, a, b, i):
    if t.isfloat:
        return '(%s %s %s)' % (t.flane(a, i), op, t.flane(b, i))
    if t.signed:
        return '(spec_sx(%s, %d) %s spec_sx(%s, %d))' % (t.lane(a, i), t.bits, op, t.lane(b, i), t.bits)
    return '(%s %s %s)' % (t.lane(a, i), op, t.lane(b, i))


@family
def f_cmp(c):
    if c.kind == 'method' and c.name in CMP and len(c.P) == 1 and c.OT and c.OT.kind == 'vec' and c.PT[0].ct == c.OT.ct \
            and c.RT and c.RT.kind == 'mask' and c.RT.W == c.OT.W:
        # member form  mask Vector::operator==(Vector rhs) const
        t = c.OT
        op = CMP[c.name]
        ens = [('mask well-formed', c.RT.wf(RV))]
        ens += [('cmp %s lane %d' % (op, i), '%s == %s' % (c.RT.view(RV, i), cmp_expr(t, op, '(*this)', c.a(0), i))) for i in range(t.W)]
        return Contract('cmp_' + c.name, ['C02'], ensures=ens, assigns=[], cxx='({this} %s {0})' % op)
    if c.kind == 'function' and c.name in CMP and len(c.P) == 2:
        t = same_vec_params(c, 2)
        if t and t.kind == 'vec' and c.RT.kind == 'mask' and c.RT.W == t.W:
            op = CMP[c.name]
            ens = [('mask well-formed', c.RT.wf(RV))]
            ens += [('cmp %s lane %d' % (op, i), '%s == %s' % (c.RT.view(RV, i), cmp_expr(t, op, c.a(0), c.a(1), i)))
                    for i in range(t.W)]
            return Contract('cmp_' + c.name, ['C02'], ensures=ens, assigns=[], cxx='({0} %s {1})' % op)
    return None


# --------------------------------------------------------------------------------------------
# C06  <bit> functions (vectors and scalars)
# --------------------------------------------------------------------------------------------
BITFN = {'popcount': 'spec_popcount', 'countl_zero': 'spec_countl_zero', 'countl_one': 'spec_countl_one',
         'countr_zero': 'spec_countr_zero', 'countr_one': 'spec_countr_one', 'bit_width': 'spec_bit_width',
         'bit_floor': 'spec_bit_floor', 'bit_ceil': 'spec_bit_ceil', 'byteswap': 'spec_byteswap',
         'countl_sign': 'spec_countl_sign'}


@family
def f_bitfn(c):
    if c.kind != 'function' or len(c.P) != 1 or c.P[0]['ref']:
        return None
    t = c.PT[0]
    if t.kind not in ('vec', 'scalar') or not t.isint:
        return None
    props = ['C06'] + (['C16'] if t.kind == 'scalar' else [])
    if c.name in BITFN and c.RT.ct == t.ct:
        sp = BITFN[c.name]
        return lanewise_fn(c, t, lambda i: '%s(%s, %d) & spec_mask(%d)' % (sp, t.lane(c.a(0), i), t.bits, t.bits),
                           props, 'bit_' + c.name, 'avel::%s({0})' % c.name)
    if c.name == 'has_single_bit':
        if t.kind == 'scalar' and c.RT.kind == 'bool':
            return Contract('bit_has_single_bit', props, ensures=[('has_single_bit', '%s == (_Bool)spec_has_single_bit(%s, %d)' % (
                RV, t.lane(c.a(0), 0), t.bits))], assigns=[], cxx='avel::has_single_bit({0})')
        if t.kind == 'vec' and c.RT.kind == 'mask' and c.RT.W == t.W:
            ens = [('mask well-formed', c.RT.wf(RV))]
            ens += [('has_single_bit lane %d' % i, '%s == (_Bool)spec_has_single_bit(%s, %d)' % (c.RT.view(RV, i), t.lane(c.a(0), i), t.bits))
                    for i in range(t.W)]
            return Contract('bit_has_single_bit', props, ensures=ens, assigns=[], cxx='avel::has_single_bit({0})')
    return None



# --------------------------------------------------------------------------------------------
# C03  masks as vectors of booleans
# --------------------------------------------------------------------------------------------
def arr_bool(ct):
    m = re.match(r'^Arr_b_(\d+)$', ct)
    return int(m.group(1)) if m else None


@family
def f_mask(c):
    # ---- constructors
    if c.kind == 'ctor' and c.OT and c.OT.kind == 'mask':
        t = c.OT
        if len(c.P) == 1 and c.P[0]['ctype'] == '_Bool':
            ens = [('mask well-formed', t.wf(RV))] + [('mask(bool) lane %d' % i, '%s == (_Bool)%s' % (t.view(RV, i), c.a(0))) for i in range(t.W)]
            return Contract('mask_ctor_bool', ['C03'], ensures=ens, cxx='%s({0})' % t.cxx())
        if len(c.P) == 1 and arr_bool(c.P[0]['ctype'].rstrip('*')) == t.W:
            a = c.a(0)
            ens = [('mask well-formed', t.wf(RV))] + [('mask(array) lane %d' % i, '%s == (_Bool)(%s)._M_elems[%d]' % (t.view(RV, i), a, i)) for i in range(t.W)]
            return Contract('mask_ctor_array', ['C03'], ensures=ens, cxx='%s({0})' % t.cxx())
        return None
    if c.kind == 'method' and c.OT and c.OT.kind == 'mask':
        t = c.OT
        this = '(*this)'
        pre = [t.wf(this)]
        if c.name == 'operator=' and len(c.P) == 1 and c.P[0]['ctype'] == '_Bool':
            ens = [('mask well-formed', t.wf(this))] + [('mask = bool lane %d' % i, '%s == (_Bool)%s' % (t.view(this, i), c.a(0))) for i in range(t.W)]
            ens.append(('returns *this', '%s == this' % RV))
            return Contract('mask_assign_bool', ['C03'], ensures=ens, assigns=['*this'], cxx='({this} = {0})')
        if c.name in ('operator&=', 'operator|=', 'operator^=') and len(c.P) == 1 and c.PT[0].ct == t.ct:
            op = {'operator&=': '&&', 'operator|=': '||', 'operator^=': '!='}[c.name]
            pre.append(t.wf(c.a(0)))
            ens = [('mask well-formed', t.wf(this))]
            ens += [('mask %s lane %d' % (c.name[8:], i), '%s == (%s %s %s)' % (t.view(this, i), t.view_old(this, i), op, t.view(c.a(0), i))) for i in range(t.W)]
            ens.append(('returns *this', '%s == this' % RV))
            return Contract('mask_' + c.name, ['C03'], requires=pre, ensures=ens, assigns=['*this'], cxx='({this} %s {0})' % c.name[8:])
        if c.name in ('operator==', 'operator!=') and len(c.P) == 1 and c.PT[0].ct == t.ct and c.RT.kind == 'bool':
            b = c.a(0)
            alleq = ' && '.join('(%s == %s)' % (t.view(this, i), t.view(b, i)) for i in range(t.W))
            e = '%s == (_Bool)(%s)' % (RV, alleq) if c.name == 'operator==' else '%s == (_Bool)!(%s)' % (RV, alleq)
            return Contract('mask_' + c.name, ['C03'], requires=pre + [t.wf(b)], ensures=[('mask %s' % c.name[8:], e)], cxx='({this} %s {0})' % c.name[8:])
        if c.name == 'operator!' and len(c.P) == 0 and c.RT.ct == t.ct:
            ens = [('mask well-formed', c.RT.wf(RV))] + [('mask ! lane %d' % i, '%s == !%s' % (t.view(RV, i), t.view(this, i))) for i in range(t.W)]
            return Contract('mask_not', ['C03'], requires=pre, ensures=ens, cxx='(!{this})')
        return None
    if c.kind == 'function' and len(c.P) == 2 and c.PT[0].kind == 'mask' and c.PT[1].kind == 'mask' and c.PT[0].ct == c.PT[1].ct:
        t = c.PT[0]
        a, b = c.a(0), c.a(1)
        pre = [t.wf(a), t.wf(b)]
        if c.name in ('operator&', 'operator&&', 'operator|', 'operator||', 'operator^') and c.RT.ct == t.ct:
            op = {'operator&': '&&', 'operator&&': '&&', 'operator|': '||', 'operator||': '||', 'operator^': '!='}[c.name]
            ens = [('mask well-formed', t.wf(RV))]
            ens += [('mask %s lane %d' % (c.name[8:], i), '%s == (%s %s %s)' % (t.view(RV, i), t.view(a, i), op, t.view(b, i))) for i in range(t.W)]
            return Contract('mask_' + c.name, ['C03'], requires=pre, ensures=ens, cxx='({0} %s {1})' % c.name[8:])
        if c.name in ('operator==', 'operator!=') and c.RT.kind == 'bool':
            alleq = ' && '.join('(%s == %s)' % (t.view(a, i), t.view(b, i)) for i in range(t.W))
            e = '%s == (_Bool)(%s)' % (RV, alleq) if c.name == 'operator==' else '%s == (_Bool)!(%s)' % (RV, alleq)
            return Contract('mask_' + c.name, ['C03'], requires=pre, ensures=[('mask %s' % c.name[8:], e)], cxx='({0} %s {1})' % c.name[8:])
        return None
    if c.kind == 'function' and len(c.P) == 1 and c.PT[0].kind == 'mask' and not c.P[0]['ref']:
        t = c.PT[0]
        m = c.a(0)
        pre = [t.wf(m)]
        views = [t.view(m, i) for i in range(t.W)]
        if c.name == 'count':
            return Contract('mask_count', ['C03'], requires=pre, ensures=[('count', '(uint64_t)%s == (uint64_t)(%s)' % (RV, ' + '.join('(uint64_t)' + v for v in views)))], cxx='avel::count({0})')
        if c.name in ('any', 'all', 'none'):
            e = {'any': '(%s)' % ' || '.join(views), 'all': '(%s)' % ' && '.join(views), 'none': '!(%s)' % ' || '.join(views)}[c.name]
            return Contract('mask_' + c.name, ['C03'], requires=pre, ensures=[(c.name, '((%s) != 0) == (_Bool)%s' % (RV, e))], cxx='avel::%s({0})' % c.name)
        if c.name == 'extract' and c.targs and isinstance(c.targs[0], int) and c.targs[0] < t.W:
            I = c.targs[0]
            return Contract('mask_extract', ['C03'], requires=pre, ensures=[('extract<%d>' % I, '(_Bool)%s == %s' % (RV, t.view(m, I)))], cxx='avel::extract<%d>({0})' % I)
        if c.name == 'set_bits' and c.RT.kind == 'vec' and c.RT.W == t.W:
            r = c.RT
            ens = [('set_bits lane %d' % i, '%s == (%s ? spec_mask(%d) : 0)' % (r.lane(RV, i), t.view(m, i), r.bits)) for i in range(t.W)]
            return Contract('mask_set_bits', ['C03'], requires=pre, ensures=ens, cxx='avel::set_bits({0})')
        return None
    if c.kind == 'function' and c.name == 'insert' and len(c.P) == 2 and c.PT[0].kind == 'mask' and c.P[1]['ctype'] == '_Bool' and c.targs and isinstance(c.targs[0], int):
        t = c.PT[0]
        I = c.targs[0]
        if I >= t.W or c.RT.ct != t.ct:
            return None
        m, b = c.a(0), c.a(1)
        ens = [('mask well-formed', t.wf(RV))]
        ens += [('insert<%d> lane %d' % (I, j), '%s == %s' % (t.view(RV, j), '(_Bool)' + b if j == I else t.view(m, j))) for j in range(t.W)]
        return Contract('mask_insert', ['C03'], requires=[t.wf(m)], ensures=ens, cxx='avel::insert<%d>({0}, {1})' % I)
    # ---- vector <-> mask conversions
    if c.kind == 'ctor' and c.OT and c.OT.kind == 'vec' and len(c.P) == 1 and c.PT[0].kind == 'mask' and c.PT[0].W == c.OT.W and c.PT[0].elem == c.OT.elem:
        t, mt = c.OT, c.PT[0]
        one = {'f32': '0x3f800000u', 'f64': '0x3ff0000000000000ull'}.get(t.elem, '1')
        ens = [('Vector(mask) lane %d' % i, '%s == (%s ? (uint64_t)%s : 0)' % (t.lane(RV, i), mt.view(c.a(0), i), one)) for i in range(t.W)]
        return Contract('vec_from_mask', ['C03'], requires=[mt.wf(c.a(0))], ensures=ens, cxx='%s({0})' % t.cxx())
    if c.kind == 'conv' and c.OT and c.OT.kind == 'vec' and c.RT and c.RT.kind == 'mask' and c.RT.W == c.OT.W:
        t, mt = c.OT, c.RT
        ens = [('mask well-formed', mt.wf(RV))]
        for i in range(t.W):
            nz = '(%s != 0)' % t.flane('(*this)', i) if t.isfloat else '(%s != 0)' % t.lane('(*this)', i)
            ens.append(('mask(vector) lane %d' % i, '%s == %s' % (mt.view(RV, i), nz)))
        return Contract('vec_to_mask', ['C03'], ensures=ens, cxx='static_cast<%s>({this})' % mt.cxx())
    if c.kind == 'function' and len(c.P) == 1 and c.PT[0].kind == 'vec' and c.name in ('count', 'any', 'all', 'none') and not c.P[0]['ref']:
        t = c.PT[0]
        v = c.a(0)
        nz = ['(%s != 0)' % (t.flane(v, i) if t.isfloat else t.lane(v, i)) for i in range(t.W)]
        if c.name == 'count':
            return Contract('vec_count', ['C03'], ensures=[('count(vector)', '(uint64_t)%s == (uint64_t)(%s)' % (RV, ' + '.join('(uint64_t)' + x for x in nz)))], cxx='avel::count({0})')
        e = {'any': '(%s)' % ' || '.join(nz), 'all': '(%s)' % ' && '.join(nz), 'none': '!(%s)' % ' || '.join(nz)}[c.name]
        return Contract('vec_' + c.name, ['C03'], ensures=[(c.name + '(vector)', '((%s) != 0) == (_Bool)%s' % (RV, e))], cxx='avel::%s({0})' % c.name)
    return None


# --------------------------------------------------------------------------------------------
# C04  bitwise, shifts, rotations
# --------------------------------------------------------------------------------------------
BITOPS = {'operator&=': '&', 'operator|=': '|', 'operator^=': '^'}
BITOPS_BIN = {'operator&': '&', 'operator|': '|', 'operator^': '^'}


def shift_spec(t, left):
    if left:
        return 'spec_shl'
    return 'spec_sar' if t.signed else 'spec_shr'


def amount_ok_scalar(e, bits):
    return '(%s >= 0 && %s <= %d)' % (e, e, bits)


def amount_ok_lane(t, e, i):
    if t.signed:
        return '(spec_sx(%s, %d) >= 0 && spec_sx(%s, %d) <= %d)' % (t.lane(e, i), t.bits, t.lane(e, i), t.bits, t.bits)
    return '(%s <= %d)' % (t.lane(e, i), t.bits)


@family
def f_bitwise_shift(c):
    if c.kind == 'method' and c.OT and c.OT.kind == 'vec' and c.OT.isint:
        t = c.OT
        this = '(*this)'
        if c.name in BITOPS and len(c.P) == 1 and c.PT[0].ct == t.ct:
            op = BITOPS[c.name]
            return compound_method(c, t, lambda i: '(%s %s %s)' % (OLD(t.lane(this, i)), op, t.lane(c.a(0), i)), ['C04'], 'bit_' + c.name, '({this} %s= {0})' % op)
        if c.name == 'operator~' and len(c.P) == 0 and c.RT.ct == t.ct:
            ens = [('~ lane %d' % i, eq_lane(t, RV, i, '(~%s & spec_mask(%d))' % (t.lane(this, i), t.bits))) for i in range(t.W)]
            return Contract('bit_not', ['C04'], ensures=ens, cxx='(~{this})')
        if c.name in ('operator<<=', 'operator>>=') and len(c.P) == 1:
            left = c.name == 'operator<<='
            sp = shift_spec(t, left)
            op = c.name[8:]
            if c.P[0]['ctype'] == 'long long':
                return compound_method(c, t, lambda i: '%s(%s, (uint64_t)%s, %d)' % (sp, OLD(t.lane(this, i)), c.a(0), t.bits), ['C04'],
                                       'shift_scalar_' + op, '({this} %s {0})' % op, req=[amount_ok_scalar(c.a(0), t.bits)])
            if c.PT[0].ct == t.ct:
                amt = (lambda i: 'spec_trunc(%s, %d)' % (t.lane(c.a(0), i), t.bits))
                return compound_method(c, t, lambda i: '%s(%s, %s, %d)' % (sp, OLD(t.lane(this, i)), amt(i), t.bits), ['C04'],
                                       'shift_vector_' + op, '({this} %s {0})' % op, req=[amount_ok_lane(t, c.a(0), i) for i in range(t.W)])
        return None
    if c.kind != 'function' or not c.P:
        return None
    t = c.PT[0]
    if t.kind not in ('vec', 'scalar') or not t.isint or c.P[0]['ref']:
        return None
    if t.kind == 'vec' and c.name in BITOPS_BIN and len(c.P) == 2 and c.PT[1].ct == t.ct and c.RT.ct == t.ct:
        op = BITOPS_BIN[c.name]
        return lanewise_fn(c, t, lambda i: '(%s %s %s)' % (t.lane(c.a(0), i), op, t.lane(c.a(1), i)), ['C04'], 'bit_' + c.name, '({0} %s {1})' % op)
    if t.kind == 'vec' and c.name in ('operator<<', 'operator>>') and len(c.P) == 2 and c.RT.ct == t.ct:
        left = c.name == 'operator<<'
        sp = shift_spec(t, left)
        op = c.name[8:]
        if c.P[1]['ctype'] == 'long long':
            return lanewise_fn(c, t, lambda i: '%s(%s, (uint64_t)%s, %d)' % (sp, t.lane(c.a(0), i), c.a(1), t.bits), ['C04'],
                               'shift_scalar_bin_' + op, '({0} %s {1})' % op, req=[amount_ok_scalar(c.a(1), t.bits)])
        if c.PT[1].ct == t.ct:
            return lanewise_fn(c, t, lambda i: '%s(%s, spec_trunc(%s, %d), %d)' % (sp, t.lane(c.a(0), i), t.lane(c.a(1), i), t.bits, t.bits), ['C04'],
                               'shift_vector_bin_' + op, '({0} %s {1})' % op, req=[amount_ok_lane(t, c.a(1), i) for i in range(t.W)])
    if t.kind == 'vec' and c.name in ('bit_shift_left', 'bit_shift_right') and len(c.P) == 1 and c.targs and isinstance(c.targs[0], int) and c.RT.ct == t.ct:
        S = c.targs[0]
        if S > t.bits:
            return None
        sp = shift_spec(t, c.name == 'bit_shift_left')
        return lanewise_fn(c, t, lambda i: '%s(%s, %d, %d)' % (sp, t.lane(c.a(0), i), S, t.bits), ['C04'], c.name, 'avel::%s<%d>({0})' % (c.name, S))
    if c.name in ('rotl', 'rotr') and c.RT.ct == t.ct:
        sp = 'spec_' + c.name
        props = ['C04'] + (['C16'] if t.kind == 'scalar' else [])
        if len(c.P) == 1 and c.targs and isinstance(c.targs[0], int) and t.kind == 'vec':
            S = c.targs[0]
            return lanewise_fn(c, t, lambda i: '%s(%s, %dull, %d)' % (sp, t.lane(c.a(0), i), S, t.bits), props, c.name + '_const', 'avel::%s<%du>({0})' % (c.name, S))
        if len(c.P) == 2 and c.P[1]['ctype'] in ('uint32_t', 'uint64_t', 'unsigned long long'):
            amt = '(uint64_t)(%s %% %d)' % (c.a(1), t.bits)
            return lanewise_fn(c, t, lambda i: '%s(%s, %s, %d)' % (sp, t.lane(c.a(0), i), amt, t.bits), props, c.name + '_scalar', 'avel::%s({0}, {1})' % c.name)
        if len(c.P) == 2 and c.P[1]['ctype'] == 'long long':
            # "by the amount modulo the bit width, for any amount": the amount is taken modulo bits as a mathematical integer
            amt = '(uint64_t)(((%s %% %d) + %d) %% %d)' % (c.a(1), t.bits, t.bits, t.bits)
            return lanewise_fn(c, t, lambda i: '%s(%s, %s, %d)' % (sp, t.lane(c.a(0), i), amt, t.bits), props, c.name + '_scalar', 'avel::%s({0}, {1})' % c.name)
        if len(c.P) == 2 and c.PT[1].ct == t.ct and t.kind == 'vec':
            return lanewise_fn(c, t, lambda i: '%s(%s, spec_trunc(%s, %d), %d)' % (sp, t.lane(c.a(0), i), t.lane(c.a(1), i), t.bits, t.bits), props,
                               c.name + '_vector', 'avel::%s({0}, {1})' % c.name)
    return None


# --------------------------------------------------------------------------------------------
# C05  integer division
# --------------------------------------------------------------------------------------------
def div_guard(t, x, y, i):
    return 'spec_div_defined(%s, %s, %d, %d)' % (t.lane(x, i), t.lane(y, i), t.bits, t.signed)


def div_lattice(t):
    b = t.bits
    vals = [1, 2, 3, 5, 7, 10, 1 << (b - 1), (1 << (b - 1)) + 1, (1 << b) - 1, (1 << b) - 2, (1 << (b - 1)) - 1]
    if t.signed:
        vals += [(1 << b) - 3, (1 << b) - 7, (1 << b) - 10]
    return sorted(set(v & ((1 << b) - 1) for v in vals))


def div_mode(k, t, ylane, xlane=None):
    """width-1 vectors route to the hardware divider: uninterpreted-division mode (full domain, routing proof).
    SIMD emulations (shift-subtract, FP division) are beyond SAT for symbolic divisors: PARTIAL DOMAIN -- all dividends,
    divisors of every lane drawn from a fixed lattice -- reported as partial, never as proved."""
    if t.W == 1 or t.bits == 64:
        # 64-bit SIMD lanes are divided one by one with the scalar divider in every x86 branch: same routing proof, and
        # with no pre-condition on the other lanes' divisors a zero divisor anywhere reaches the "division by zero" check.
        # MIN / -1 is different: the property excludes such a lane from the exactness claim and says nothing about it not
        # trapping (it is undefined for the C++ operator as well), so for signed lanes no lane holds MIN / -1.
        k.defines = ['AVM_DIV_UF']
        if t.W > 1 and t.signed:
            k.requires = list(k.requires) + ['!(%s == %dull && %s == %dull)' % (xlane(i), 1 << (t.bits - 1), ylane(i), (1 << t.bits) - 1) for i in range(t.W)]
        return k
    lat = div_lattice(t)
    # "a zero divisor in one lane neither traps nor changes the result of any other lane": the divisor is pinned in every
    # other lane only (even lanes, then odd lanes); the remaining lanes' divisors are unconstrained -- zero included -- and
    # nothing is claimed for them in that obligation
    k.div_consts = []
    for v in lat:
        for par, tag in ((0, 'even lanes'), (1, 'odd lanes')):
            lanes = [i for i in range(t.W) if i % 2 == par]
            k.div_consts.append((v, ['%s == %dull' % (ylane(i), v) for i in lanes], set(lanes), tag))
    k.div_quick = {3, (1 << (t.bits - 1)) + 1}
    k.div_full_lanes = (t.bits == 8)
    k.partial = 'two obligations per divisor d in the lattice {%s} (mod 2^%d): the even (odd) lanes divide by d while the divisors of the odd (even) lanes are unconstrained, zero included; all dividends' % (', '.join(str(v) for v in lat), t.bits)
    return k


def compound_forwarding(c, t, k, compound):
    """binary operator generated by AVEL_VECTOR_ARITHMETIC_OPERATORS: `lhs op= rhs; return lhs;`.  Forwarding contract for all
    operand values: the compound form is replaced by an abstract contract -- called on an object holding lhs with argument rhs
    [checked at the call site], it leaves one fixed but arbitrary value ghost_res in the object -- and the binary operator
    must return exactly that value.  What the compound form computes is its own contract."""
    F = c.db['functions']
    callee = None
    for cal in c.fn.get('calls', []):
        cf = F.get(cal)
        if cf and not cf.get('error') and cf.get('kind') == 'method' and cf.get('name') == compound and cf.get('owner') == t.ct \
                and len(cf['params']) == 1 and cf['params'][0]['ctype'] == t.ct and not cf['params'][0]['ref']:
            callee = cal
    if not callee:
        return None
    cf = F[callee]
    pr = cf['params'][0]['name']
    if t.repr in ('m128', 'm256', 'm512'):
        nw = {'m128': 2, 'm256': 4, 'm512': 8}[t.repr]
        same = lambda a, b: ' && '.join('(%s).content.q[%d] == (%s).content.q[%d]' % (a, j, b, j) for j in range(nw))
    else:
        same = lambda a, b: '%s == %s' % (t.lane(a, 0), t.lane(b, 0))
    abstract = Contract('compound_abstract', [], requires=[same('(*this)', 'ghost_lhs'), same(pr, 'ghost_rhs')],
                        ensures=[('abstract compound form: result', same('(*this)', 'ghost_res'))] + ([('abstract compound form: returns *this', '%s == this' % RV)] if cf.get('ret_ref') else []),
                        assigns=['*this'])
    k2 = Contract(k.family, k.props, requires=[], cxx=k.cxx, flags=[], assigns=[],
                  ensures=[('%s returns what %s left in lhs, lane %d' % (k.family, compound, i), '%s == %s' % (t.lane(RV, i), t.lane('ghost_res', i))) for i in range(t.W)])
    k2.ghosts = ['%s ghost_lhs, ghost_rhs, ghost_res;' % t.ct]
    k2.setup = ['ghost_lhs = a0;', 'ghost_rhs = a1;']
    k2.replace_with = {callee: abstract}
    k2.forwarding = True
    k2.fallback = k          # a failed forwarding obligation is not a violation: the direct lane-wise contract decides
    return k2


def has_loops(db, fn, depth=4):
    F = db['functions']
    seen = set()
    front = [fn['cname']]
    for _ in range(depth):
        nxt = []
        for cn in front:
            f = F.get(cn) or {}
            if f.get('loops'):
                return True
            for cal in f.get('calls', []):
                if cal not in seen:
                    seen.add(cal)
                    nxt.append(cal)
        front = nxt
    return False


def div32_contract(c, t, x, y):
    """div of the 32-bit SIMD vectors.
    Shift-subtract branches (SSE2..AVX2): the loop runs at most 32 times -- fully unwound with unwinding assertions (complete,
    not bounded) -- and the post-condition is the EUCLIDEAN WITNESS in the multiplier-free form in which such dividers
    accumulate (spec_subchain): rem < y and x - sum_j quot_j * (y << j) == rem, which lemma L5 (Lean) shows equivalent to
    quot == x / y and rem == x % y.  Signed types (abs / unsigned div / negate): the same witness on the magnitudes plus the
    C sign rules.  AVX-512 branches (vcvtudq2pd, vdivpd, vcvttpd2udq): routing contract with the FPU divide uninterpreted --
    quot == trunc(fdiv((double)x, (double)y)), rem == x - quot * y -- and the named assumption A1 (trunc of the rounded
    binary64 quotient of two 32-bit integers is their integer quotient).  One lane per solver call."""
    W = t.W
    Q, R = '(%s).quot' % RV, '(%s).rem' % RV
    MIN = 1 << 31
    ens = []
    if has_loops(c.db, c.fn):
        for i in range(W):
            xl, yl, ql, rl = t.lane(x, i), t.lane(y, i), t.lane(Q, i), t.lane(R, i)
            if not t.signed:
                ens.append(('div remainder below divisor lane %d' % i, '%s == 0 || %s < %s' % (yl, rl, yl)))
                ens.append(('div Euclidean witness lane %d' % i, '%s == 0 || spec_subchain(%s, %s, %s, 32) == %s' % (yl, xl, ql, yl, rl)))
            else:
                mag = lambda e: '((%s & 0x80000000ull) ? ((0 - %s) & 0xffffffffull) : %s)' % (e, e, e)
                neg = lambda e: '((%s & 0x80000000ull) != 0)' % e
                g = '(%s == 0 || (%s == %dull && %s == 0xffffffffull))' % (yl, xl, MIN, yl)
                ens.append(('div remainder magnitude below divisor magnitude lane %d' % i, '%s || %s < %s' % (g, mag(rl), mag(yl))))
                ens.append(('div Euclidean witness on magnitudes lane %d' % i, '%s || spec_subchain(%s, %s, %s, 32) == %s' % (g, mag(xl), mag(ql), mag(yl), mag(rl))))
                ens.append(('div sign rules lane %d' % i, '%s || ((%s == 0 || %s == (%s != %s)) && (%s == 0 || %s == %s))' % (g, ql, neg(ql), neg(xl), neg(yl), rl, neg(rl), neg(xl))))
        k = Contract('int_div', ['C05'], ensures=ens, cxx='avel::div({0}, {1})', flags=['div', 'split'])
        k.unwind = 34
        if W >= 8:
            k.not_covered = ('8-lane shift-subtract loop (AVX2 branch): the fully unwound 32-iteration loop over 8 lanes needs > 20 GB and > 15 min per lane '
                             'post-condition (measured on the 4-lane SSE2 twin: 13.7 GB, 7.5 min); the 4-lane loop of the same shape IS discharged (thorough tier)')
        k.modulo_lemma = 'L5 (euclid_witness, AvelLemmas.lean): remainder below the divisor and the multiplier-free Euclidean witness <=> quot == x / y, rem == x % y'
        return k
    if t.signed:
        # abs / unsigned FP-routed div / negate
        mag = lambda e: '((%s & 0x80000000ull) ? ((0 - %s) & 0xffffffffull) : %s)' % (e, e, e)
        neg = lambda e: '((%s & 0x80000000ull) != 0)' % e
        for i in range(W):
            xl, yl, ql, rl = t.lane(x, i), t.lane(y, i), t.lane(Q, i), t.lane(R, i)
            g = '(%s == 0 || (%s == %dull && %s == 0xffffffffull))' % (yl, xl, MIN, yl)
            uq = '(uint64_t)avm_cvtt_f64_u32(AVM_FDIV_f64((double)(uint32_t)%s, (double)(uint32_t)%s))' % (mag(xl), mag(yl))
            ens.append(('div quotient = sign-adjusted truncated binary64 quotient of the magnitudes lane %d' % i,
                        '%s || %s == ((%s != %s) ? ((0 - %s) & 0xffffffffull) : %s)' % (g, ql, neg(xl), neg(yl), uq, uq)))
            ur1 = '((%s - %s * %s) & 0xffffffffull)' % (mag(xl), uq, mag(yl))
            ur2 = '((%s - %s * %s) & 0xffffffffull)' % (mag(xl), mag(yl), uq)
            ens.append(('div remainder = sign of x, magnitude |x| - uq * |y| (uq the unsigned quotient) lane %d' % i,
                        '%s || %s == (%s ? ((0 - %s) & 0xffffffffull) : %s) || %s == (%s ? ((0 - %s) & 0xffffffffull) : %s)' % (
                            g, rl, neg(xl), ur1, ur1, rl, neg(xl), ur2, ur2)))
        k = Contract('int_div', ['C05'], ensures=ens, cxx='avel::div({0}, {1})', flags=['div', 'split'])
        k.defines = ['AVM_FP_UF']
        k.modulo_lemma = 'A1 (assumption, not proved), applied to the magnitudes'
        return k
    for i in range(W):
        xl, yl, ql, rl = t.lane(x, i), t.lane(y, i), t.lane(Q, i), t.lane(R, i)
        fq = '(uint64_t)avm_cvtt_f64_u32(AVM_FDIV_f64((double)(uint32_t)%s, (double)(uint32_t)%s))' % (xl, yl)
        ens.append(('div quotient = truncated binary64 quotient lane %d' % i, '%s == 0 || %s == %s' % (yl, ql, fq)))
        # either operand order of the 32 x 32 product (a multiplier circuit is not commutative for a SAT solver)
        ens.append(('div remainder = x - quot * y lane %d' % i, '%s == 0 || %s == ((%s - %s * %s) & 0xffffffffull) || %s == ((%s - %s * %s) & 0xffffffffull)' % (
            yl, rl, xl, ql, yl, rl, xl, yl, ql)))
    k = Contract('int_div', ['C05'], ensures=ens, cxx='avel::div({0}, {1})', flags=['div', 'split'])
    k.defines = ['AVM_FP_UF']
    k.modulo_lemma = 'A1 (assumption, not proved): for 32-bit unsigned x and y != 0, truncating the correctly rounded binary64 quotient x / y gives floor(x / y) in every rounding mode'
    return k


def find_div_callee(db, fn, t, depth=3):
    """cname of avel::div(V, V) reached (transitively, through the compound form) from fn"""
    F = db['functions']
    seen = set()
    front = [fn['cname']]
    for _ in range(depth):
        nxt = []
        for cn in front:
            for cal in (F.get(cn) or {}).get('calls', []):
                if cal in seen:
                    continue
                seen.add(cal)
                cf = F.get(cal)
                if not cf or cf.get('error'):
                    continue
                if cf.get('name') == 'div' and len(cf['params']) == 2 and all(p['ctype'] == t.ct and not p['ref'] for p in cf['params']) \
                        and re.match(r'^Div_Vec_', cf.get('ret') or ''):
                    return cal
                nxt.append(cal)
        front = nxt
    return None


def div_forwarding(c, t, k, lhs, rhs, target, field, k_direct=None):
    """operator / % /= %= of the SIMD integer vectors forward to div(lhs, rhs).  Forwarding contract, for ALL operand
    values: div is replaced by an abstract contract -- called with exactly (lhs, rhs) [checked at the call site], it returns
    one fixed but arbitrary pair ghost_dres -- and the operator must deliver that pair's quot (rem) field, lane for lane.
    What div itself returns is div's own contract (int_div)."""
    callee = find_div_callee(c.db, c.fn, t)
    if not callee or t.repr not in ('m128', 'm256', 'm512'):
        return None
    cf = c.db['functions'][callee]
    px, py = cf['params'][0]['name'], cf['params'][1]['name']
    nw = {'m128': 2, 'm256': 4, 'm512': 8}[t.repr]
    same = lambda a, b: ' && '.join('(%s).content.q[%d] == (%s).content.q[%d]' % (a, j, b, j) for j in range(nw))
    abstract = Contract('int_div_abstract', [], requires=[same(px, 'ghost_dx'), same(py, 'ghost_dy')],
                        ensures=[('abstract div: quot', same('(%s).quot' % RV, 'ghost_dres.quot')), ('abstract div: rem', same('(%s).rem' % RV, 'ghost_dres.rem'))])
    k2 = Contract(k.family, k.props, requires=[], cxx=k.cxx, flags=[], assigns=list(k.assigns),
                  ensures=[('%s delivers the %s field of div(lhs, rhs) lane %d' % (k.family, field, i), '%s == %s' % (t.lane(target, i), t.lane('ghost_dres.' + field, i))) for i in range(t.W)]
                          + [(l, e) for l, e in k.ensures if 'returns' in l])
    k2.ghosts = ['%s ghost_dx, ghost_dy;' % t.ct, '%s ghost_dres;' % cf['ret']]
    k2.setup = ['ghost_dx = %s;' % lhs, 'ghost_dy = %s;' % rhs]
    k2.replace_with = {callee: abstract}
    k2.forwarding = True
    k2.fallback = k_direct   # a failed forwarding obligation is not a violation: the direct (partial-domain) contract decides
    return k2


@family
def f_div(c):
    if c.kind == 'function' and c.name == 'div' and len(c.P) == 2:
        t = same_vec_params(c, 2)
        if not t or t.kind != 'vec' or not t.isint:
            return None
        if not re.match(r'^Div_Vec_', c.fn['ret']):
            return None
        x, y = c.a(0), c.a(1)
        dq, dr = ('spec_sdiv', 'spec_srem') if t.signed else ('spec_udiv', 'spec_urem')
        ens = []
        for i in range(t.W):
            g = div_guard(t, x, y, i)
            ens.append(('div quot lane %d' % i, '!%s || %s' % (g, eq_lane(t, '(%s).quot' % RV, i, '%s(%s, %s, %d)' % (dq, t.lane(x, i), t.lane(y, i), t.bits)))))
            ens.append(('div rem lane %d' % i, '!%s || %s' % (g, eq_lane(t, '(%s).rem' % RV, i, '%s(%s, %s, %d)' % (dr, t.lane(x, i), t.lane(y, i), t.bits)))))
        req = [div_guard(t, x, y, 0)] if t.W == 1 else []
        if t.W > 1 and t.bits == 32:
            return div32_contract(c, t, x, y)
        return div_mode(Contract('int_div', ['C05'], requires=req, ensures=ens, cxx='avel::div({0}, {1})', flags=['div']), t, lambda i: t.lane(y, i), lambda i: t.lane(x, i))
    if c.kind == 'method' and c.name in ('operator/=', 'operator%=') and c.OT and c.OT.kind == 'vec' and c.OT.isint and len(c.P) == 1 and c.PT[0].ct == c.OT.ct:
        t = c.OT
        this = '(*this)'
        quot = c.name == 'operator/='
        sp = ('spec_sdiv' if quot else 'spec_srem') if t.signed else ('spec_udiv' if quot else 'spec_urem')
        req = [div_guard(t, this, c.a(0), 0)] if t.W == 1 else []
        k = compound_method(c, t, lambda i: '%s(%s, %s, %d)' % (sp, OLD(t.lane(this, i)), t.lane(c.a(0), i), t.bits), ['C05'], 'int_' + c.name,
                               '({this} %s {0})' % c.name[8:], req=req,
                               per_lane_guard=lambda i: 'spec_div_defined(%s, %s, %d, %d)' % (OLD(t.lane(this, i)), t.lane(c.a(0), i), t.bits, t.signed),
                               flags=['div'])
        if t.W > 1:
            import copy as _copy
            kd = div_mode(_copy.copy(k), t, lambda i: t.lane(c.a(0), i), lambda i: t.lane(this, i)) if t.bits != 32 else None
            fw = div_forwarding(c, t, k, 'self_obj', 'a0', this, 'quot' if quot else 'rem', kd)
            if fw:
                return fw
        return div_mode(k, t, lambda i: t.lane(c.a(0), i), lambda i: t.lane(this, i))
    if c.kind == 'function' and c.name in ('operator/', 'operator%') and len(c.P) == 2:
        t = same_vec_params(c, 2)
        if not t or t.kind != 'vec' or not t.isint or c.RT.ct != t.ct:
            return None
        quot = c.name == 'operator/'
        sp = ('spec_sdiv' if quot else 'spec_srem') if t.signed else ('spec_udiv' if quot else 'spec_urem')
        req = [div_guard(t, c.a(0), c.a(1), 0)] if t.W == 1 else []
        k = lanewise_fn(c, t, lambda i: '%s(%s, %s, %d)' % (sp, t.lane(c.a(0), i), t.lane(c.a(1), i), t.bits), ['C05'], 'int_' + c.name,
                           '({0} %s {1})' % c.name[8:], req=req, per_lane_guard=lambda i: div_guard(t, c.a(0), c.a(1), i), flags=['div'])
        if t.W > 1:
            import copy as _copy
            kd = div_mode(_copy.copy(k), t, lambda i: t.lane(c.a(1), i), lambda i: t.lane(c.a(0), i)) if t.bits != 32 else None
            fw = div_forwarding(c, t, k, 'a0', 'a1', RV, 'quot' if quot else 'rem', kd)
            if fw:
                return fw
        return div_mode(k, t, lambda i: t.lane(c.a(1), i), lambda i: t.lane(c.a(0), i))
    return None


# --------------------------------------------------------------------------------------------
# C07  selection, min/max/clamp, abs/negate, average, midpoint (integers; scalars belong to C16)
# --------------------------------------------------------------------------------------------
@family
def f_select_minmax(c):
    if c.kind != 'function' or not c.P:
        return None
    name = c.name
    # blend / keep / clear / negate(m, v): first parameter is a mask (vectors) or bool (scalars)
    if name in ('blend', 'keep', 'clear', 'negate') and len(c.P) >= 2 and c.PT[0].kind in ('mask', 'bool') and c.PT[1].kind in ('vec', 'scalar'):
        mt, t = c.PT[0], c.PT[1]
        if mt.kind == 'mask' and (t.kind != 'vec' or mt.W != t.W):
            return None
        if mt.kind == 'bool' and t.kind != 'scalar':
            return None
        if c.RT.ct != t.ct or any(p['ref'] for p in c.P):
            return None
        m = c.a(0)
        props = ['C07'] + (['C16'] if t.kind == 'scalar' else [])
        pre = [mt.wf(m)] if mt.kind == 'mask' else []
        if name == 'blend' and len(c.P) == 3 and c.PT[2].ct == t.ct:
            return lanewise_fn(c, t, lambda i: '(%s ? %s : %s)' % (mt.view(m, i), t.lane(c.a(1), i), t.lane(c.a(2), i)), props, 'blend', 'avel::blend({0}, {1}, {2})', req=pre)
        if name == 'keep' and len(c.P) == 2:
            return lanewise_fn(c, t, lambda i: '(%s ? %s : 0)' % (mt.view(m, i), t.lane(c.a(1), i)), props, 'keep', 'avel::keep({0}, {1})', req=pre)
        if name == 'clear' and len(c.P) == 2:
            return lanewise_fn(c, t, lambda i: '(%s ? 0 : %s)' % (mt.view(m, i), t.lane(c.a(1), i)), props, 'clear', 'avel::clear({0}, {1})', req=pre)
        if name == 'negate' and len(c.P) == 2:
            if t.isfloat:
                sb = '0x80000000ull' if t.bits == 32 else '0x8000000000000000ull'
                return lanewise_fn(c, t, lambda i: '(%s ? (%s ^ %s) : %s)' % (mt.view(m, i), t.lane(c.a(1), i), sb, t.lane(c.a(1), i)), props, 'negate_float', 'avel::negate({0}, {1})', req=pre)
            return lanewise_fn(c, t, lambda i: '(%s ? spec_neg(%s, %d) : %s)' % (mt.view(m, i), t.lane(c.a(1), i), t.bits, t.lane(c.a(1), i)), props, 'negate', 'avel::negate({0}, {1})', req=pre)
        return None
    t = c.PT[0]
    if t.kind not in ('vec', 'scalar') or any(p['ref'] for p in c.P):
        return None
    props = ['C07'] + (['C16'] if t.kind == 'scalar' else [])
    if not t.isint:
        return None
    if name in ('min', 'max') and len(c.P) == 2 and c.PT[1].ct == t.ct and c.RT.ct == t.ct:
        return lanewise_fn(c, t, lambda i: 'spec_%s(%s, %s, %d, %d)' % (name, t.lane(c.a(0), i), t.lane(c.a(1), i), t.bits, t.signed), props, 'int_' + name, 'avel::%s({0}, {1})' % name)
    if name == 'minmax' and len(c.P) == 2 and c.PT[1].ct == t.ct and re.match(r'^Arr_.*_2$', c.fn['ret']):
        ens = []
        for i in range(t.W):
            ens.append(('minmax[0] lane %d' % i, eq_lane(t, '(%s)._M_elems[0]' % RV, i, 'spec_min(%s, %s, %d, %d)' % (t.lane(c.a(0), i), t.lane(c.a(1), i), t.bits, t.signed))))
            ens.append(('minmax[1] lane %d' % i, eq_lane(t, '(%s)._M_elems[1]' % RV, i, 'spec_max(%s, %s, %d, %d)' % (t.lane(c.a(0), i), t.lane(c.a(1), i), t.bits, t.signed))))
        return Contract('int_minmax', props, ensures=ens, cxx='avel::minmax({0}, {1})')
    if name == 'clamp' and len(c.P) == 3 and c.PT[1].ct == t.ct and c.PT[2].ct == t.ct and c.RT.ct == t.ct:
        # documented domain: lo < hi in every lane (the contract conditions each lane on its own bounds)
        return lanewise_fn(c, t, lambda i: 'spec_clamp(%s, %s, %s, %d, %d)' % (t.lane(c.a(0), i), t.lane(c.a(1), i), t.lane(c.a(2), i), t.bits, t.signed), props,
                           'int_clamp', 'avel::clamp({0}, {1}, {2})',
                           per_lane_guard=lambda i: 'spec_lt(%s, %s, %d, %d)' % (t.lane(c.a(1), i), t.lane(c.a(2), i), t.bits, t.signed))
    if name == 'abs' and len(c.P) == 1 and t.signed and c.RT.ct == t.ct:
        return lanewise_fn(c, t, lambda i: 'spec_abs(%s, %d)' % (t.lane(c.a(0), i), t.bits), props, 'int_abs', 'avel::abs({0})')
    if name == 'neg_abs' and len(c.P) == 1 and c.RT.elem and c.RT.bits == t.bits and c.RT.W == t.W and c.RT.isint:
        if t.signed:
            return lanewise_fn(c, t, lambda i: 'spec_neg_abs(%s, %d, 1)' % (t.lane(c.a(0), i), t.bits), props, 'int_neg_abs', 'avel::neg_abs({0})')
        # unsigned argument, signed result: -x, stated where the result is representable (x < 2^(bits-1))
        return lanewise_fn(c, t, lambda i: 'spec_neg(%s, %d)' % (t.lane(c.a(0), i), t.bits), props, 'uint_neg_abs', 'avel::neg_abs({0})',
                           per_lane_guard=lambda i: '(%s < ((uint64_t)1 << %d))' % (t.lane(c.a(0), i), t.bits - 1))
    if name in ('average', 'midpoint') and len(c.P) == 2 and c.PT[1].ct == t.ct and c.RT.ct == t.ct:
        sp = 'spec_%s_%s' % (name, 's' if t.signed else 'u')
        return lanewise_fn(c, t, lambda i: '%s(%s, %s, %d)' % (sp, t.lane(c.a(0), i), t.lane(c.a(1), i), t.bits), props, 'int_' + name, 'avel::%s({0}, {1})' % name)
    return None



# --------------------------------------------------------------------------------------------
# C08 / C09  loads, stores, gathers, scatters, array round trips, lane access
#   The harness owns the memory: an object of EXACTLY min(n, W) elements (malloc'ed, so a zero-sized object for
#   n == 0); CBMC's pointer checks against that object are the footprint obligations (C09), the ensures clauses
#   are the value obligations (C08).  `n` is fully symbolic.
# --------------------------------------------------------------------------------------------
def elem_of_ptr(ct):
    if ct.endswith('*') and ct[:-1] in CT2ELEM:
        return ct[:-1]
    return None


def mem_harness(c, t, ect, n_expr, ptr_index, extra_args, aligned=False, api_aligned=None):
    """harness lines: cnt = min(n, W); buf = malloc(cnt * sizeof T) filled from a nondet array.
    Aligned forms: p is aligned to the vector size, so the naturally aligned vector-sized block containing the
    addressed elements lies in the same page and reading it can neither fault nor be observed; the object is that
    whole block (W elements) and the contract still forbids WRITING anything but the addressed elements."""
    W = t.W
    if api_aligned is None:
        api_aligned = aligned
    pre = ['%s init[%d];' % (ect, W),
           'uint32_t n_in = %s;' % n_expr,
           'uint32_t cnt = n_in < %du ? n_in : %du;' % (W, W),
           'uint32_t objn = %s;' % ('%du' % W if aligned else 'cnt'),
           '%s* buf = malloc((size_t)objn * sizeof(%s));' % (ect, ect),
           '__CPROVER_assume(buf != 0);',
           'for (int i = 0; i < %d; i++) if ((uint32_t)i < objn) buf[i] = init[i];' % W]
    pre += mem_misalign(ect, api_aligned)
    return pre


def mem_misalign(ect, api_aligned):
    """the unaligned forms must work at every element-aligned address: the object's base address is misaligned by an
    arbitrary multiple of the element size (ghost avm_mem_mod, read by the models of alignment-requiring instructions)"""
    if api_aligned:
        return ['size_t mis_in = 0;', 'avm_mem_obj = buf;', 'avm_mem_mod = 0;']
    return ['size_t mis_in = (size_t)(nondet_u8() %% 64) / sizeof(%s) * sizeof(%s);' % (ect, ect), 'avm_mem_obj = buf;', 'avm_mem_mod = mis_in;']


def bits_of(ect, e):
    if ect == 'float':
        return '(uint64_t)avm_f2u(%s)' % e
    if ect == 'double':
        return '(uint64_t)avm_d2u(%s)' % e
    b = ELEM[CT2ELEM[ect]][0]
    return '(uint64_t)(%s)(%s)' % (UNS[b], e)


@family
def f_memory(c):
    if c.kind != 'function':
        return None
    name = c.name
    P = c.P
    # ---------------- load / aligned_load
    if name in ('load', 'aligned_load') and P and elem_of_ptr(P[0]['ctype']) and c.RT and c.RT.kind == 'vec':
        t = c.RT
        ect = elem_of_ptr(P[0]['ctype'])
        if ect != t.cscalar:
            return None
        p = P[0]['name']
        if len(P) == 2 and P[1]['ctype'] == 'uint32_t':
            n_expr, nn, cxx = 'nondet_u32()', P[1]['name'], 'avel::%s<%s>({0}, {1})' % (name, t.cxx())
            args = ['buf', 'n_in']
        elif len(P) == 1 and c.targs and isinstance(c.targs[-1], int):
            N = c.targs[-1]
            n_expr, nn, cxx = '%du' % N, '%du' % N, 'avel::%s<%s, %d>({0})' % (name, t.cxx(), N)
            args = ['buf']
        else:
            return None
        cnt = '(%s < %du ? %s : %du)' % (nn, t.W, nn, t.W)
        ens = [('%s lane %d' % (name, i), '%s == ((%du < %s) ? %s : 0)' % (t.lane(RV, i), i, cnt, bits_of(ect, '%s[%d]' % (p, i)))) for i in range(t.W)]
        k = Contract('mem_' + name + ('_n' if len(P) == 2 else '_N'), ['C08', 'C09'], ensures=ens, assigns=[], cxx=cxx)
        k.harness = {'pre': mem_harness(c, t, ect, n_expr, 0, [], aligned=name.startswith('aligned')), 'args': args}
        k.harness_C08 = {'pre': mem_harness(c, t, ect, n_expr, 0, [], aligned=True, api_aligned=name.startswith('aligned')), 'args': args}
        k.mem = {'kind': 'load', 'elem': ect, 'W': t.W, 'aligned': name.startswith('aligned'), 'nparam': len(P) == 2}
        return k
    # ---------------- store / aligned_store
    if name in ('store', 'aligned_store') and len(P) >= 2 and elem_of_ptr(P[0]['ctype']) and c.PT[1].kind == 'vec' and c.fn['ret'] == 'void':
        t = c.PT[1]
        ect = elem_of_ptr(P[0]['ctype'])
        if ect != t.cscalar:
            return None
        p, v = P[0]['name'], c.a(1)
        if len(P) == 3 and P[2]['ctype'] == 'uint32_t':
            n_expr, nn, cxx = 'nondet_u32()', P[2]['name'], 'avel::%s({0}, {1}, {2})' % name
            args = ['buf', 'a1', 'n_in']
        elif len(P) == 2 and ((c.targs and isinstance(c.targs[0], int)) or not c.targs):
            N = c.targs[0] if c.targs else t.W      # the non-template overload stores the whole vector
            n_expr, nn, cxx = '%du' % N, '%du' % N, ('avel::%s<%d>({0}, {1})' % (name, N) if c.targs else 'avel::%s({0}, {1})' % name)
            args = ['buf', 'a1']
        else:
            return None
        cnt = '(%s < %du ? %s : %du)' % (nn, t.W, nn, t.W)
        # assigns targets may not contain ?: -- min(n, W) written arithmetically
        cnt_noternary = '((size_t)(%s < %du) * (size_t)%s + (size_t)(%s >= %du) * (size_t)%du)' % (nn, t.W, nn, nn, t.W, t.W)
        ens = [('%s element %d' % (name, i), '!(%du < %s) || %s == %s' % (i, cnt, bits_of(ect, '%s[%d]' % (p, i)), t.lane(v, i))) for i in range(t.W)]
        if name.startswith('aligned'):
            ens += [('%s leaves element %d untouched' % (name, i), '(%du < %s) || %s == %s' % (
                i, cnt, bits_of(ect, '%s[%d]' % (p, i)), bits_of(ect, OLD('%s[%d]' % (p, i))))) for i in range(t.W)]
        k = Contract('mem_' + name + ('_n' if len(P) == 3 else '_N'), ['C08', 'C09'], ensures=ens,
                     assigns=['__CPROVER_object_upto(%s, %s * sizeof(%s))' % (p, cnt_noternary, ect)], cxx=cxx)
        k.harness = {'pre': mem_harness(c, t, ect, n_expr, 0, [], aligned=name.startswith('aligned')) + ['%s a1;' % t.ct], 'args': args}
        k.harness_C08 = {'pre': mem_harness(c, t, ect, n_expr, 0, [], aligned=True, api_aligned=name.startswith('aligned')) + ['%s a1;' % t.ct], 'args': args}
        k.mem = {'kind': 'store', 'elem': ect, 'W': t.W, 'aligned': name.startswith('aligned'), 'nparam': len(P) == 3}
        return k
    # ---------------- to_array / array constructor / extract / insert (values only: C08)
    if name == 'to_array' and len(P) == 1 and c.PT[0].kind == 'vec' and re.match(r'^Arr_', c.fn['ret']):
        t = c.PT[0]
        ens = [('to_array element %d' % i, '%s == %s' % (bits_of(t.cscalar, '(%s)._M_elems[%d]' % (RV, i)), t.lane(c.a(0), i))) for i in range(t.W)]
        return Contract('to_array', ['C08'], ensures=ens, cxx='avel::to_array({0})')
    if name == 'extract' and len(P) == 1 and c.PT[0].kind == 'vec' and c.targs and isinstance(c.targs[0], int) and c.RT.kind == 'scalar':
        t = c.PT[0]
        I = c.targs[0]
        if I >= t.W:
            return None
        return Contract('vec_extract', ['C08'], ensures=[('extract<%d>' % I, '%s == %s' % (bits_of(t.cscalar, RV), t.lane(c.a(0), I)))], cxx='avel::extract<%d>({0})' % I)
    if name == 'insert' and len(P) == 2 and c.PT[0].kind == 'vec' and c.PT[1].kind == 'scalar' and c.targs and isinstance(c.targs[0], int) and c.RT.ct == c.PT[0].ct:
        t = c.PT[0]
        I = c.targs[0]
        if I >= t.W:
            return None
        ens = [('insert<%d> lane %d' % (I, j), '%s == %s' % (t.lane(RV, j), bits_of(t.cscalar, c.a(1)) if j == I else t.lane(c.a(0), j))) for j in range(t.W)]
        return Contract('vec_insert', ['C08'], ensures=ens, cxx='avel::insert<%d>({0}, {1})' % I)
    return None


@family
def f_gather_scatter(c):
    if c.kind != 'function' or c.name not in ('gather', 'scatter'):
        return None
    P = c.P
    if c.name == 'gather':
        if len(P) < 2 or not elem_of_ptr(P[0]['ctype']) or c.PT[1].kind != 'vec' or not c.RT or c.RT.kind != 'vec':
            return None
        t, it = c.RT, c.PT[1]
        ect = elem_of_ptr(P[0]['ctype'])
        if ect != t.cscalar or it.W != t.W or not it.isint:
            return None
        p, idx = P[0]['name'], c.a(1)
        if len(P) == 3 and P[2]['ctype'] == 'uint32_t':
            nn, n_expr, args, cxx = P[2]['name'], 'nondet_u32()', ['buf', 'a1', 'n_in'], 'avel::gather<%s>({0}, {1}, {2})' % t.cxx()
        elif len(P) == 2 and c.targs and isinstance(c.targs[-1], int):
            N = c.targs[-1]
            nn, n_expr, args, cxx = '%du' % N, '%du' % N, ['buf', 'a1'], 'avel::gather<%s, %d>({0}, {1})' % (t.cxx(), N)
        else:
            return None
        vt = None
    else:
        if len(P) < 3 or not elem_of_ptr(P[0]['ctype']) or c.PT[1].kind != 'vec' or c.PT[2].kind != 'vec' or c.fn['ret'] != 'void':
            return None
        t, it = c.PT[1], c.PT[2]
        ect = elem_of_ptr(P[0]['ctype'])
        if ect != t.cscalar or it.W != t.W or not it.isint:
            return None
        p, v, idx = P[0]['name'], c.a(1), c.a(2)
        if len(P) == 4 and P[3]['ctype'] == 'uint32_t':
            nn, n_expr, args, cxx = P[3]['name'], 'nondet_u32()', ['buf', 'a1', 'a2', 'n_in'], 'avel::scatter({0}, {1}, {2}, {3})'
        elif len(P) == 3 and ((c.targs and isinstance(c.targs[0], int)) or not c.targs):
            N = c.targs[0] if c.targs else t.W
            nn, n_expr, args, cxx = '%du' % N, '%du' % N, ['buf', 'a1', 'a2'], 'avel::scatter<%d>({0}, {1}, {2})' % N
        else:
            return None
    W = t.W
    L = W + 1
    cnt = '(%s < %du ? %s : %du)' % (nn, W, nn, W)
    sidx = lambda i: 'spec_sx(%s, %d)' % (it.lane(idx, i), it.bits)
    act = lambda i: '(%du < %s)' % (i, cnt)
    req = ['avm_len <= %d' % L] if c.name == 'gather' else ['avm_len == %d' % L]
    req += ['!%s || (%s >= 0 && %s < (int64_t)avm_len)' % (act(i), sidx(i), sidx(i)) for i in range(W)]
    # gather: the object has a symbolic number of elements (an unneeded read of a low element fails when the object is
    # shorter); scatter: a fixed W+1 elements, every one of which must keep its value unless addressed
    pre = ['%s init[%d];' % (ect, L), 'size_t len_in = %s;' % ('nondet_sz()' if c.name == 'gather' else '%d' % L),
           '__CPROVER_assume(len_in <= %d);' % L, 'avm_len = len_in;',
           '%s* buf = malloc(len_in * sizeof(%s));' % (ect, ect), '__CPROVER_assume(buf != 0);',
           'for (int i = 0; i < %d; i++) if ((size_t)i < len_in) buf[i] = init[i];' % L,
           'uint32_t n_in = %s;' % n_expr] + mem_misalign(ect, False)
    def far_twin(k):
        # Far indices.  The object above has W + 1 elements, so every index is tiny and an index that is narrowed on its way to
        # the address (a 64-bit lane through a 32-bit temporary, a 32-bit lane through a 16-bit one) is never seen.  Twin
        # obligation for 32- and 64-bit index lanes: the object has a symbolic number of elements up to 2^33 (2^31 - 1 for
        # 32-bit lanes), contents arbitrary; same pre-conditions on the indices, same lane post-conditions (the frame of a
        # scatter -- nothing else changes -- is the business of the small-object obligation).
        if it.bits < 32:
            return
        import copy
        big = '(((size_t)1) << 33)' if it.bits == 64 else '((((size_t)1) << 31) - 1)'
        f = copy.copy(k)
        f.requires = ['avm_len <= %s' % big] + list(k.requires[1:])
        fpre = []
        for l in k.harness['pre']:
            if l.startswith('size_t len_in ='):
                l = 'size_t len_in = nondet_sz();'
            elif l.startswith('__CPROVER_assume(len_in <='):
                l = '__CPROVER_assume(len_in <= %s);' % big
            elif l.startswith('for (int i = 0;'):
                continue
            fpre.append(l)
        f.harness = {'pre': fpre, 'args': list(k.harness['args'])}
        f.ensures = [e for e in k.ensures if 'untouched unless addressed' not in e[0]]
        f.part = 'far indices: object of up to 2^%d elements' % (33 if it.bits == 64 else 31)
        f.far_W = W
        f.gs = dict(k.gs, far=True)
        k.far = f

    if c.name == 'gather':
        ens = [('gather lane %d' % i, '%s == (%s ? %s : 0)' % (t.lane(RV, i), act(i), bits_of(ect, '%s[%s]' % (p, sidx(i))))) for i in range(W)]
        k = Contract('mem_gather' + ('_n' if len(P) == 3 else '_N'), ['C08', 'C09'], requires=req, ensures=ens, assigns=[], cxx=None)
        k.harness = {'pre': pre + ['%s a1;' % it.ct], 'args': args}
        k.gs = {'kind': 'gather', 'elem': ect, 'W': W, 'ibits': it.bits, 'it': it.ct, 'vt': t.ct, 'far': False, 'call': cxx,
                'N': (None if len(P) == 3 else int(nn[:-1]))}
        far_twin(k)
        return k
    # scatter: active indices pairwise distinct (the property is silent about duplicates).  From 8 lanes on the 28+ pairwise
    # constraints make the query slow: the active indices are required to be strictly increasing instead (a symmetry
    # reduction that implies distinctness; reported as partial domain)
    partial = None
    if W >= 8:
        for i in range(W - 1):
            req.append('!(%s && %s) || %s < %s' % (act(i), act(i + 1), sidx(i), sidx(i + 1)))
        partial = 'active indices strictly increasing (implies distinct); all values, all n'
    else:
        for i in range(W):
            for j in range(i + 1, W):
                req.append('!(%s && %s) || %s != %s' % (act(i), act(j), sidx(i), sidx(j)))
    ens = [('scatter element of lane %d' % i, '!%s || %s == %s' % (act(i), bits_of(ect, '%s[%s]' % (p, sidx(i))), t.lane(v, i))) for i in range(W)]
    for j in range(L):
        hit = ' || '.join('(%s && %s == %d)' % (act(i), sidx(i), j) for i in range(W))
        ens.append(('scatter leaves element %d untouched unless addressed' % j, '%s || %s == %s' % (
            hit, bits_of(ect, '%s[%d]' % (p, j)), bits_of(ect, OLD('%s[%d]' % (p, j))))))
    k = Contract('mem_scatter' + ('_n' if len(P) == 4 else '_N'), ['C08', 'C09'], requires=req, ensures=ens,
                 assigns=['__CPROVER_object_whole(%s)' % p], cxx=None)
    k.harness = {'pre': pre + ['%s a1;' % t.ct, '%s a2;' % it.ct], 'args': args}
    k.partial = partial
    k.gs = {'kind': 'scatter', 'elem': ect, 'W': W, 'ibits': it.bits, 'it': it.ct, 'vt': t.ct, 'far': False, 'call': cxx,
            'N': (None if len(P) == 4 else int(nn[:-1]))}
    far_twin(k)
    return k


@family
def f_broadcast(c):
    """Vector(scalar) and Vector::operator=(scalar): every lane holds the scalar (the lane semantics every property relies on)"""
    if c.kind == 'ctor' and c.OT and c.OT.kind == 'vec' and len(c.P) == 1 and c.PT[0].kind == 'scalar' and c.PT[0].elem == c.OT.elem and not c.P[0]['ref']:
        t = c.OT
        ens = [('Vector(scalar) lane %d' % i, '%s == %s' % (t.lane(RV, i), bits_of(t.cscalar, c.a(0)))) for i in range(t.W)]
        return Contract('vec_from_scalar', ['C08'], ensures=ens, cxx='%s({0})' % t.cxx())
    if c.kind == 'method' and c.name == 'operator=' and c.OT and c.OT.kind == 'vec' and len(c.P) == 1 and c.PT[0].kind == 'scalar' and c.PT[0].elem == c.OT.elem and not c.P[0]['ref']:
        t = c.OT
        ens = [('Vector = scalar lane %d' % i, '%s == %s' % (t.lane('(*this)', i), bits_of(t.cscalar, c.a(0)))) for i in range(t.W)]
        ens.append(('returns *this', '%s == this' % RV))
        return Contract('vec_assign_scalar', ['C08'], ensures=ens, assigns=['*this'], cxx='({this} = {0})')
    return None


@family
def f_array_ctor(c):
    if c.kind == 'ctor' and c.OT and c.OT.kind == 'vec' and len(c.P) == 1:
        ct = c.P[0]['ctype'].rstrip('*')
        m = re.match(r'^Arr_(\w+)_(\d+)$', ct)
        if m and m.group(1) == c.OT.elem and int(m.group(2)) == c.OT.W:
            t = c.OT
            ens = [('Vector(array) lane %d' % i, '%s == %s' % (t.lane(RV, i), bits_of(t.cscalar, '(%s)._M_elems[%d]' % (c.a(0), i)))) for i in range(t.W)]
            return Contract('vec_from_array', ['C08'], ensures=ens, cxx='%s({0})' % t.cxx())
    return None



# --------------------------------------------------------------------------------------------
# C10 .. C13  floating point (vectors and the scalar overloads; scalars also belong to C16)
# --------------------------------------------------------------------------------------------
RM_SETUP = ['int rm_in = nondet_i32();', '__CPROVER_assume(rm_in >= 0 && rm_in < 4);', '__CPROVER_rounding_mode = rm_in;']


def fsuf(t):
    return '32' if t.bits == 32 else '64'


def fval(t, e, i):
    return t.flane(e, i)


def same_bits(t, a, b):
    return 'spec_same%s((uint%s_t)%s, (uint%s_t)%s)' % (fsuf(t), fsuf(t), a, fsuf(t), b)


def fbits(t, fexpr):
    return '(uint64_t)%s(%s)' % ('spec_f2u' if t.bits == 32 else 'spec_d2u', fexpr)


def old_fval(t, e, i):
    """float value of lane i of e in the pre-state (__CPROVER_old applied to the stored object only)"""
    if t.repr in ('m128', 'm256', 'm512'):
        return '%s(%s)' % ('avm_u2f' if t.bits == 32 else 'avm_u2d', OLD('AVM_L%d((%s).content, %d)' % (t.bits, e, i)))
    return OLD('(%s).content' % e)


def old_fbits(t, e, i):
    if t.repr in ('m128', 'm256', 'm512'):
        return '(uint64_t)' + OLD('AVM_L%d((%s).content, %d)' % (t.bits, e, i))
    return '(uint64_t)%s(%s)' % ('avm_f2u' if t.bits == 32 else 'avm_d2u', OLD('(%s).content' % e))


def fop(t, op, x, y):
    """float operation in the spec: + and - in CBMC's IEEE theory; * and / through the same macro as the extracted code and
    the instruction models (an uninterpreted FPU operation in the C10 routing proofs)"""
    return 'AVM_%s_f%d(%s, %s)' % ({'*': 'FMUL', '/': 'FDIV', '+': 'FADD', '-': 'FSUB'}[op], t.bits, x, y)


FARITH = {'operator+=': '+', 'operator-=': '-', 'operator*=': '*', 'operator/=': '/'}
FARITH_BIN = {'operator+': '+', 'operator-': '-', 'operator*': '*', 'operator/': '/'}


@family
def f_float_arith(c):
    if c.kind == 'method' and c.OT and c.OT.kind == 'vec' and c.OT.isfloat:
        t = c.OT
        this = '(*this)'
        if c.name in FARITH and len(c.P) == 1 and c.PT[0].ct == t.ct:
            op = FARITH[c.name]
            ens = []
            for i in range(t.W):
                exp = fbits(t, fop(t, op, old_fval(t, this, i), fval(t, c.a(0), i)))
                ens.append(('float %s lane %d' % (c.name, i), same_bits(t, t.lane(this, i), exp)))
            ens.append(('returns *this', '%s == this' % RV))
            k = Contract('float_' + c.name, ['C10'], ensures=ens, assigns=['*this'], cxx='({this} %s= {0})' % op, setup=RM_SETUP)
            k.defines = ['AVM_FP_UF']
            return k
        if c.name == 'operator-' and len(c.P) == 0 and c.RT.ct == t.ct:
            sb = '0x80000000ull' if t.bits == 32 else '0x8000000000000000ull'
            ens = [('float unary minus flips exactly the sign bit, lane %d' % i, '%s == (%s ^ %s)' % (t.lane(RV, i), t.lane(this, i), sb)) for i in range(t.W)]
            return Contract('float_neg', ['C10'], ensures=ens, cxx='(-{this})')
        if c.name in ('operator++', 'operator--'):
            op = '+' if c.name == 'operator++' else '-'
            one = '1.0f' if t.bits == 32 else '1.0'
            ens = []
            for i in range(t.W):
                oldv = old_fval(t, this, i)
                ens.append(('float %s lane %d' % (c.name, i), same_bits(t, t.lane(this, i), fbits(t, fop(t, op, oldv, one)))))
                if c.P:
                    ens.append(('post-form returns the old value lane %d' % i, '%s == %s' % (t.lane(RV, i), old_fbits(t, this, i))))
            if not c.P:
                ens.append(('pre-form returns *this', '%s == this' % RV))
            k = Contract('float_' + c.name + ('_post' if c.P else '_pre'), ['C10'], ensures=ens, assigns=['*this'],
                         cxx=('({this}%s)' if c.P else '(%s{this})') % c.name[-2:], setup=RM_SETUP)
            k.defines = ['AVM_FP_UF']
            return k
        return None
    if c.kind != 'function' or not c.P:
        return None
    t = c.PT[0]
    if t.kind not in ('vec', 'scalar') or not t.isfloat or any(p['ref'] for p in c.P):
        return None
    sc = ['C16'] if t.kind == 'scalar' else []
    nm = c.name
    a0 = c.a(0)
    if t.kind == 'vec' and nm in FARITH_BIN and len(c.P) == 2 and c.PT[1].ct == t.ct and c.RT.ct == t.ct:
        op = FARITH_BIN[nm]
        ens = [('float %s lane %d' % (nm, i), same_bits(t, t.lane(RV, i), fbits(t, fop(t, op, fval(t, a0, i), fval(t, c.a(1), i))))) for i in range(t.W)]
        k = Contract('float_' + nm, ['C10'], ensures=ens, cxx='({0} %s {1})' % op, setup=RM_SETUP)
        k.defines = ['AVM_FP_UF']
        return k
    if nm == 'sqrt' and len(c.P) == 1 and c.RT.ct == t.ct:
        fn = 'avm_sqrtf' if t.bits == 32 else 'avm_sqrt'
        ens = [('sqrt lane %d' % i, same_bits(t, t.lane(RV, i), fbits(t, '%s(%s)' % (fn, fval(t, a0, i))))) for i in range(t.W)]
        k = Contract('float_sqrt', ['C10'] + sc, ensures=ens, cxx='avel::sqrt({0})', setup=RM_SETUP)
        k.replay_lattice = [2.0, 3.0, 0.1, 1e30, 1e-30, 7.0]      # operands with an inexact root (see vlib/replay.py)
        return k
    # ---- C11
    if nm in ('ceil', 'floor', 'trunc', 'round', 'nearbyint', 'rint') and len(c.P) == 1 and c.RT.ct == t.ct:
        sp = 'spec_%s%s' % ('nearbyint' if nm == 'rint' else nm, fsuf(t))
        ens = [('%s lane %d' % (nm, i), 'spec_numeq%s(%s, %s(%s))' % (fsuf(t), fval(t, RV, i), sp, fval(t, a0, i))) for i in range(t.W)]
        return Contract('float_' + nm, ['C11'] + sc, ensures=ens, cxx='avel::%s({0})' % nm, setup=RM_SETUP)
    # ---- C13
    CLS = {'isnan': 'spec_isnan', 'isinf': 'spec_isinf', 'isfinite': 'spec_isfinite', 'isnormal': 'spec_isnormal', 'signbit': 'spec_signbit'}
    if nm in CLS and len(c.P) == 1 and c.RT.kind in ('mask', 'bool'):
        sp = CLS[nm] + fsuf(t)
        ens = ([('mask well-formed', c.RT.wf(RV))] if c.RT.kind == 'mask' else [])
        ens += [('%s lane %d' % (nm, i), '%s == (_Bool)%s(%s)' % (c.RT.view(RV, i), sp, t.lane(a0, i).replace('(uint64_t)', '(uint%s_t)' % fsuf(t), 1))) for i in range(t.W)]
        return Contract('float_' + nm, ['C13'] + sc, ensures=ens, cxx='avel::%s({0})' % nm)
    if nm == 'fpclassify' and len(c.P) == 1 and c.RT.elem and c.RT.isint and c.RT.W == t.W:
        r = c.RT
        ens = [('fpclassify lane %d' % i, 'spec_sx(%s, %d) == (int64_t)spec_fpclassify%s(%s)' % (r.lane(RV, i), r.bits, fsuf(t), t.lane(a0, i).replace('(uint64_t)', '(uint%s_t)' % fsuf(t), 1))) for i in range(t.W)]
        return Contract('float_fpclassify', ['C13'] + sc, ensures=ens, cxx='avel::fpclassify({0})')
    QC = {'isgreater': '>', 'isgreaterequal': '>=', 'isless': '<', 'islessequal': '<=', 'islessgreater': None, 'isunordered': None}
    if nm in QC and len(c.P) == 2 and c.PT[1].ct == t.ct and c.RT.kind in ('mask', 'bool'):
        ens = ([('mask well-formed', c.RT.wf(RV))] if c.RT.kind == 'mask' else [])
        for i in range(t.W):
            x, y = fval(t, a0, i), fval(t, c.a(1), i)
            if nm == 'islessgreater':
                e = '(%s < %s || %s > %s)' % (x, y, x, y)
            elif nm == 'isunordered':
                e = '(%s != %s || %s != %s)' % (x, x, y, y)
            else:
                e = '(%s %s %s)' % (x, QC[nm], y)
            ens.append(('%s lane %d' % (nm, i), '%s == (_Bool)%s' % (c.RT.view(RV, i), e)))
        return Contract('float_' + nm, ['C13'] + sc, ensures=ens, cxx='avel::%s({0}, {1})' % nm)
    # ---- C07 (float part): sign-bit operations and min/max/clamp for non-NaN operands
    sb = '0x80000000ull' if t.bits == 32 else '0x8000000000000000ull'
    if nm in ('abs', 'neg_abs') and len(c.P) == 1 and c.RT.ct == t.ct:
        e = (lambda i: '(%s & ~%s)' % (t.lane(a0, i), sb)) if nm == 'abs' else (lambda i: '(%s | %s)' % (t.lane(a0, i), sb))
        return lanewise_fn(c, t, e, ['C07'] + sc, 'float_' + nm, 'avel::%s({0})' % nm)
    if nm == 'copysign' and len(c.P) == 2 and c.PT[1].ct == t.ct and c.RT.ct == t.ct:
        return lanewise_fn(c, t, lambda i: '((%s & ~%s) | (%s & %s))' % (t.lane(a0, i), sb, t.lane(c.a(1), i), sb), ['C07'] + sc, 'float_copysign', 'avel::copysign({0}, {1})')
    if nm in ('min', 'max') and len(c.P) == 2 and c.PT[1].ct == t.ct and c.RT.ct == t.ct:
        ok = 'spec_f%s_ok%s' % (nm, fsuf(t))
        ens = []
        for i in range(t.W):
            x, y = t.lane(a0, i), t.lane(c.a(1), i)
            nonan = '(!spec_isnan%s(%s) && !spec_isnan%s(%s))' % (fsuf(t), x, fsuf(t), y)
            ens.append(('float %s lane %d (non-NaN operands)' % (nm, i), '!%s || %s(%s, %s, %s)' % (nonan, ok, t.lane(RV, i), x, y)))
        return Contract('float_' + nm, ['C07'] + sc, ensures=ens, cxx='avel::%s({0}, {1})' % nm)
    if nm == 'minmax' and len(c.P) == 2 and c.PT[1].ct == t.ct and re.match(r'^Arr_.*_2$', c.fn['ret']):
        ens = []
        for i in range(t.W):
            x, y = t.lane(a0, i), t.lane(c.a(1), i)
            nonan = '(!spec_isnan%s(%s) && !spec_isnan%s(%s))' % (fsuf(t), x, fsuf(t), y)
            ens.append(('float minmax[0] lane %d (non-NaN operands)' % i, '!%s || spec_fmin_ok%s(%s, %s, %s)' % (nonan, fsuf(t), t.lane('(%s)._M_elems[0]' % RV, i), x, y)))
            ens.append(('float minmax[1] lane %d (non-NaN operands)' % i, '!%s || spec_fmax_ok%s(%s, %s, %s)' % (nonan, fsuf(t), t.lane('(%s)._M_elems[1]' % RV, i), x, y)))
        return Contract('float_minmax', ['C07'] + sc, ensures=ens, cxx='avel::minmax({0}, {1})')
    if nm == 'clamp' and len(c.P) == 3 and c.RT.ct == t.ct:
        ens = []
        for i in range(t.W):
            x, lo, hi = fval(t, a0, i), fval(t, c.a(1), i), fval(t, c.a(2), i)
            dom = '(%s == %s && %s < %s)' % (x, x, lo, hi)
            ens.append(('float clamp lane %d (non-NaN, lo < hi)' % i, '!%s || %s == (%s < %s ? %s : (%s > %s ? %s : %s))' % (dom, fval(t, RV, i), x, lo, lo, x, hi, hi, x)))
        return Contract('float_clamp', ['C07'] + sc, ensures=ens, cxx='avel::clamp({0}, {1}, {2})')
    # ---- C12
    if nm in ('fmax', 'fmin', 'fdim') and len(c.P) == 2 and c.PT[1].ct == t.ct and c.RT.ct == t.ct:
        ok = 'spec_%s_ok%s' % (nm, fsuf(t))
        ens = [('%s lane %d' % (nm, i), '%s(%s, %s, %s)' % (ok, t.lane(RV, i), t.lane(a0, i), t.lane(c.a(1), i))) for i in range(t.W)]
        return Contract('float_' + nm, ['C12'] + sc, ensures=ens, cxx='avel::%s({0}, {1})' % nm, setup=RM_SETUP if nm == 'fdim' else None)
    if nm == 'frac' and len(c.P) == 1 and c.RT.ct == t.ct:
        ens = [('frac lane %d' % i, 'spec_frac_ok%s(%s, %s)' % (fsuf(t), t.lane(RV, i), t.lane(a0, i))) for i in range(t.W)]
        return Contract('float_frac', ['C12'] + sc, ensures=ens, cxx='avel::frac({0})', setup=RM_SETUP)
    if nm == 'ilogb' and len(c.P) == 1 and c.RT.elem and c.RT.isint and c.RT.W == t.W:
        r = c.RT
        ens = [('ilogb lane %d' % i, 'spec_sx(%s, %d) == (int64_t)spec_ilogb%s(%s)' % (r.lane(RV, i), r.bits, fsuf(t), t.lane(a0, i))) for i in range(t.W)]
        return Contract('float_ilogb', ['C12'] + sc, ensures=ens, cxx='avel::ilogb({0})')
    if nm == 'logb' and len(c.P) == 1 and c.RT.ct == t.ct:
        ens = [('logb lane %d' % i, 'spec_logb_ok%s(%s, %s)' % (fsuf(t), t.lane(RV, i), t.lane(a0, i))) for i in range(t.W)]
        return Contract('float_logb', ['C12'] + sc, ensures=ens, cxx='avel::logb({0})')
    if nm in ('ldexp', 'scalbn') and len(c.P) == 2 and c.RT.ct == t.ct and c.PT[1].elem and c.PT[1].isint and c.PT[1].W == t.W:
        et = c.PT[1]
        if t.bits == 32:
            ens = [('%s lane %d' % (nm, i), 'spec_ldexp_ok32(%s, %s, (int32_t)spec_sx(%s, %d))' % (t.lane(RV, i), t.lane(a0, i), et.lane(c.a(1), i), et.bits)) for i in range(t.W)]
        else:
            ens = [('%s lane %d' % (nm, i), 'spec_ldexp_ok64(%s, %s, spec_sx(%s, %d))' % (t.lane(RV, i), t.lane(a0, i), et.lane(c.a(1), i), et.bits)) for i in range(t.W)]
        # one lane per solver call: each lane is three chained multiplications by powers of two against an exact wide product
        # (all eight binary64 lanes in one query: > 1500 s; one lane: about a minute)
        k = Contract('float_' + nm, ['C12'] + sc, ensures=ens, cxx='avel::%s({0}, {1})' % nm, setup=RM_SETUP, flags=(['split'] if t.W > 1 else []))
        if t.bits == 64:
            k.mem_gb = 7       # measured: 6-7 GB per lane query; the scheduler runs at most MIDMEM_JOBS of these side by side
        return k
    return None


@family
def f_frexp(c):
    if c.kind != 'function' or c.name != 'frexp' or len(c.P) != 2 or not c.P[1]['ctype'].endswith('*'):
        return None
    t = c.PT[0]
    if t.kind not in ('vec', 'scalar') or not t.isfloat or c.RT.ct != t.ct:
        return None
    et = T(c.P[1]['ctype'][:-1], c.S)
    if not et.elem or not et.isint or et.W != t.W:
        return None
    e = '(*%s)' % c.P[1]['name']
    ens = [('frexp lane %d' % i, 'spec_frexp_ok%s(%s, (int32_t)spec_sx(%s, %d), %s)' % (fsuf(t), t.lane(RV, i), et.lane(e, i), et.bits, t.lane(c.a(0), i))) for i in range(t.W)]
    k = Contract('float_frexp', ['C12'] + (['C16'] if t.kind == 'scalar' else []), ensures=ens, assigns=['*%s' % c.P[1]['name']], cxx=None)
    k.harness = {'pre': ['%s a0;' % t.ct, '%s e_out;' % et.ct], 'args': ['a0', '&e_out']}
    return k



# --------------------------------------------------------------------------------------------
# C14 / C15  Denominators.  The harness builds the denominator by running the REAL constructor on a divisor d, then
# calls the function under contract; div's post-condition is stated against the divisor the object reports (field d).
# 8-bit element types: all (n, d).  Wider types: PARTIAL DOMAIN -- one obligation per divisor of a lattice, all n.
# --------------------------------------------------------------------------------------------
def denom_info(ct, S):
    m = re.match(r'^Denom_(\w+)$', ct)
    if not m or ct not in S:
        return None
    inner = m.group(1)
    if inner in ELEM:
        return T(ELEM[inner][2], S), inner, None
    vt = T(inner, S)
    if vt.kind == 'vec':
        return vt, vt.elem, inner
    return None


def find_ctor(db, owner, ptypes):
    for cn, f in db['functions'].items():
        if f.get('kind') == 'ctor' and f.get('owner') == owner and not f.get('error') and [p['ctype'] for p in f['params']] == ptypes:
            return cn
    return None


def denom_lattice(t):
    b = t.bits
    vals = [1, 2, 3, 5, 7, 10, 641, 1 << (b - 1), (1 << (b - 1)) + 1, (1 << (b - 1)) - 1, (1 << b) - 1, (1 << b) - 2, 1 << (b // 2), (1 << (b // 2)) + 1]
    if t.signed:
        vals += [(1 << b) - 3, (1 << b) - 7, (1 << b) - 10, (1 << b) - (1 << (b // 2))]
    return sorted(set(v & ((1 << b) - 1) for v in vals if v & ((1 << b) - 1)))


@family
def f_denominator(c):
    S = c.S
    fn = c.fn
    # ---- constructors: no trap for any non-zero divisor, value() == d
    if c.kind == 'ctor' and fn.get('owner', '').startswith('Denom_') and len(c.P) == 1:
        di = denom_info(fn['owner'], S)
        if not di:
            return None
        t, el, vec = di
        pct = c.P[0]['ctype']
        if pct == t.ct and t.W > 1 and t.bits == 64:
            # 64-bit lanes: the magic numbers come from the scalar 128-by-64-bit divide (divq / __uint128_t), one lane at a
            # time.  "Constructing ... never traps": every safety obligation of the constructor (divq: high half below the
            # divisor, shift amounts, ...) for ALL non-zero divisor lanes, with the divide instruction uninterpreted
            req = ['%s != 0' % t.lane(c.a(0), i) for i in range(t.W)]
            ens = [('value() reports the divisor, lane %d' % i, '%s == %s' % (t.lane('(%s).d' % RV, i), t.lane(c.a(0), i))) for i in range(t.W)]
            k = Contract('denom_ctor_simd', ['C15'], requires=req, ensures=ens, cxx='%s({0})' % ('avel::Denominator<%s>' % t.cxx()), flags=['div'])
            k.defines = ['AVM_DIV_UF']
            return k
        if pct == t.ct and t.W > 1 and t.bits == 32 and not t.signed:
            # unsigned 32-bit lanes: the magic numbers come from 64-bit lane divisions (scalar divide per 64-bit lane,
            # uninterpreted): lane-wise code-level contract -- every lane stores the Granlund-Montgomery parameters of its
            # own divisor (modulo-lemma L3); no trap for any non-zero lanes
            flds = dict(S[fn['owner']])
            sh1t = T(flds['sh1'], S)
            d0 = c.a(0)
            req = ['%s != 0' % t.lane(d0, i) for i in range(t.W)]
            ens = []
            for i in range(t.W):
                dl = '(uint32_t)%s' % t.lane(d0, i)
                l = 'spec_ceil_log2(%s, 32)' % dl
                sh1 = sh1t.view('(%s).sh1' % RV, i) if sh1t.kind == 'mask' else '(%s != 0)' % sh1t.lane('(%s).sh1' % RV, i)
                ens.append(('lane %d stores the round-up reciprocal of its divisor' % i, '(uint32_t)%s == spec_gm_magic_u32(%s, %s)' % (t.lane('(%s).m' % RV, i), dl, l)))
                ens.append(('lane %d stores sh1 = min(l, 1)' % i, '%s == (%s >= 1u)' % (sh1, l)))
                ens.append(('lane %d stores sh2 = l - sh1' % i, '(uint32_t)%s == (uint32_t)(%s - (%s >= 1u ? 1u : 0u))' % (t.lane('(%s).sh2' % RV, i), l, l)))
                ens.append(('value() reports the divisor, lane %d' % i, '%s == %s' % (t.lane('(%s).d' % RV, i), t.lane(d0, i))))
            if sh1t.kind == 'mask':
                ens.append(('sh1 is a well-formed mask', sh1t.wf('(%s).sh1' % RV)))
            else:
                ens += [('sh1 lane %d is 0 or 1' % i, '%s <= 1' % sh1t.lane('(%s).sh1' % RV, i)) for i in range(t.W)]
            k = Contract('denom_ctor_simd', ['C15'], requires=req, ensures=ens, cxx='%s({0})' % ('avel::Denominator<%s>' % t.cxx()), flags=['div'])
            k.defines = ['AVM_DIV_UF']
            return k
        if pct == t.ct and t.W > 1:
            # SIMD constructors run vector division loops on a symbolic divisor (beyond the solvers); they are executed
            # -- with every safety check on -- inside each div / operator obligation, which builds its denominator with them
            return None
        if pct == t.ct:       # from the divisor (scalar or width-1 vector)
            req = ['%s != 0' % t.lane(c.a(0), i) for i in range(t.W)]
            flds = dict(S[fn['owner']])
            if 'd' in flds:
                ens = [('value() reports the divisor, lane %d' % i, '%s == %s' % (t.lane('(%s).d' % RV, i), t.lane(c.a(0), i))) for i in range(t.W)]
            else:
                st = T(ELEM[el][2], S)
                ens = [('value() reports the divisor', '%s == %s' % (st.lane('(%s).m.d' % RV, 0), t.lane(c.a(0), 0)))]
            k = Contract('denom_ctor', ['C14', 'C15'] if not vec else ['C15'], requires=req, ensures=ens, cxx='%s({0})' % ('avel::Denominator<%s>' % t.cxx()), flags=['div'])
            if not vec and fn['owner'] in ('Denom_u32', 'Denom_u64', 'Denom_i32', 'Denom_i64', 'Denom_u16', 'Denom_i16'):
                # stored parameters for constant divisors: constructor and reference both fold to constants, so whatever
                # arithmetic the constructor uses (128-by-64-bit long division in the portable 64-bit branches, divq, ...)
                # is executed on each of them.  Lattice + a few arbitrary large divisors (not of the form 2^k, 2^k +- small)
                b = t.bits
                d0 = c.a(0)
                M = (1 << b) - 1
                arb = {16: [1000, 12345, 40503], 32: [1000000007, 123456789, 0xDEADBEEF, 3000000019 & M],
                       64: [0x123456789ABCDEF, 1000000000000000009, 0xFEDCBA9876543211, 6700417 * 4294967291, (3 << 40) + 12345, 7777777777777, 99194853094755497]}[b]
                # plus a fixed pseudo-random sample (LCG, same on every run): divisor-dependent slips of a multi-word division
                # routine typically hit a fixed fraction of all divisors, which a lattice of "nice" values can miss entirely
                x = 0x9E3779B97F4A7C15
                rnd = []
                for _ in range(40):
                    x = (x * 6364136223846793005 + 1442695040888963407) & ((1 << 64) - 1)
                    rnd.append((x >> (64 - b)) | 1)
                arb = arb + rnd
                vals = sorted(set(denom_lattice(t) + [v & M for v in arb]))
                cc = []
                for v in vals:
                    if v == 0:
                        continue
                    if b == 64 and not t.signed and v >= M - 1:
                        continue      # CBMC 6.11 itself dies (SIGFPE in its constant folder) on the constructor's 128-bit constant division for d = 2^64 - 1, 2^64 - 2
                    # reference values computed here with exact integers (the C reference spec_gm_magic_real_* is the same formula;
                    # CBMC 6.11's constant folder crashes on some 128-bit constant divisions, so it is not used in the clause)
                    clog = lambda a: (a - 1).bit_length()
                    if t.signed:
                        sv = v - (1 << b) if v >> (b - 1) else v
                        av = -sv if sv < 0 else sv
                        ls = max(clog(av), 1)
                        mp_ref = ((1 << (b + ls - 1)) // av + 1) & M
                        ens = [('mp == floor(2^(N+l-1)/|d|) + 1 - 2^N', '(uint64_t)(uint%d_t)(%s).mp == %dull' % (b, RV, mp_ref)),
                               ('sh == l - 1', '(uint64_t)(uint%d_t)(%s).sh == %dull' % (b, RV, ls - 1)),
                               ('d_sign', '(uint64_t)(uint%d_t)(%s).d_sign == %dull' % (b, RV, M if sv < 0 else 0)),
                               ('d', '(uint64_t)(uint%d_t)(%s).d == %dull' % (b, RV, v))]
                    else:
                        lu = clog(v)
                        m_ref = ((((1 << lu) - v) << b) // v + 1) & M
                        ens = [('m == floor(2^N (2^l - d) / d) + 1', '(uint64_t)(uint%d_t)(%s).m == %dull' % (b, RV, m_ref)),
                               ('d', '(uint64_t)(uint%d_t)(%s).d == %dull' % (b, RV, v))]
                        if v != 1:
                            ens.append(('sh2 == l - 1', '(uint64_t)(uint%d_t)(%s).sh2 == %dull' % (b, RV, lu - 1)))
                    cc.append((v, '(uint64_t)(uint%d_t)%s == %dull' % (b, d0, v), ens))
                k.ctor_consts = cc
                k.ctor_quick = set(vals[:3] + [v & M for v in arb[:2]] + [v & M for v in rnd[:8]] + [M - 2, (1 << (b - 1)) + 1, 1 << (b - 1)])
            if fn['owner'] == 'Denom_i32':
                # code-level contract (modulo-lemma L4): the constructor stores the signed Granlund-Montgomery parameters of d
                d0 = c.a(0)
                absd = '(uint32_t)(((int32_t)%s) < 0 ? 0u - (uint32_t)%s : (uint32_t)%s)' % (d0, d0, d0)
                # d == MIN: the code divides by abs(MIN) == MIN (a different application of the uninterpreted divider with the
                # same value mod 2^32); that divisor is covered by the constant-divisor obligations of div instead
                k.ensures += [('stores mp = floor(2^(31+l)/|d|) + 1 - 2^32', '(uint32_t)%s == 0x80000000u || (uint32_t)(%s).mp == spec_gm_magic_i32(%s, spec_gm_l_signed(%s, 32))' % (d0, RV, absd, absd)),
                              ('stores the post-shift l - 1', '(uint32_t)(%s).sh == (uint32_t)(spec_gm_l_signed(%s, 32) - 1u)' % (RV, absd)),
                              ('stores the sign of d', '(uint32_t)(%s).d_sign == (((int32_t)%s) < 0 ? 0xffffffffu : 0u)' % (RV, d0))]
                k.defines = ['AVM_DIV_UF']
            if fn['owner'] == 'Denom_u32':
                # code-level contract (modulo-lemma L3): the constructor stores the Granlund-Montgomery parameters of d
                d0 = c.a(0)
                k.ensures += [('stores the round-up reciprocal m\' of d', '(%s).m == spec_gm_magic_u32(%s, spec_ceil_log2(%s, 32))' % (RV, d0, d0)),
                              ('stores the post-shift l - 1', '(%s).sh2 == (uint32_t)(spec_ceil_log2(%s, 32) - 1u)' % (RV, d0))]
                k.defines = ['AVM_DIV_UF']
            return k
        return None
    # ---- div / operator/ / operator% (friends) and value()
    if c.kind == 'function' and c.name in ('div', 'operator/', 'operator%') and len(c.P) == 2 and c.P[1]['ctype'].startswith('Denom_') and not c.P[1]['ref']:
        di = denom_info(c.P[1]['ctype'], S)
        if not di:
            return None
        t, el, vec = di
        if c.PT[0].ct != t.ct or c.P[0]['ref']:
            return None
        n, dn = c.a(0), c.a(1)
        dq, dr = ('spec_sdiv', 'spec_srem') if t.signed else ('spec_udiv', 'spec_urem')
        flds = dict(S[c.P[1]['ctype']])
        if 'd' in flds:
            dl = lambda i: t.lane('(%s).d' % dn, i)
        elif flds.get('m', '').startswith('Denom_'):      # width-1 vector denominators wrap the scalar denominator
            st = T(ELEM[el][2], S)
            dl = lambda i: st.lane('(%s).m.d' % dn, 0)
        else:
            return None
        ens = []
        for i in range(t.W):
            g = 'spec_div_defined(%s, %s, %d, %d)' % (t.lane(n, i), dl(i), t.bits, t.signed)
            if c.name == 'div':
                ens.append(('div quot lane %d' % i, '!%s || %s == %s(%s, %s, %d)' % (g, t.lane('(%s).quot' % RV, i), dq, t.lane(n, i), dl(i), t.bits)))
                ens.append(('div rem lane %d' % i, '!%s || %s == %s(%s, %s, %d)' % (g, t.lane('(%s).rem' % RV, i), dr, t.lane(n, i), dl(i), t.bits)))
            else:
                sp = dq if c.name == 'operator/' else dr
                ens.append(('%s lane %d' % (c.name, i), '!%s || %s == %s(%s, %s, %d)' % (g, t.lane(RV, i), sp, t.lane(n, i), dl(i), t.bits)))
        cxx = 'div({0}, {1})' if c.name == 'div' else '({0} %s {1})' % c.name[8:]
        # scalar denominators: the property excludes n == MIN with d == -1 altogether (no result is specified there)
        req = ['spec_div_defined(%s, %s, %d, %d)' % (t.lane(n, 0), dl(0), t.bits, t.signed)] if t.W == 1 and not vec else []
        k = Contract('denom_' + c.name, ['C14', 'C15'] if not vec else ['C15'], requires=req, ensures=ens, cxx=cxx, flags=['div'])
        ctor = find_ctor(c.db, c.P[1]['ctype'], [t.ct])
        if not ctor:
            return None
        k.extra_roots = [ctor]
        k.denom = {'t': t, 'vec': vec, 'ctor': ctor, 'dct': c.P[1]['ctype'], 'nct': t.ct, 'pn': (c.P[0]['name'], c.P[1]['name'])}
        k.S = S
        k.fn_code = fn.get('code') or ''
        if t.bits > 8 or t.W > 1:
            k.partial = 'one obligation per divisor d of the lattice {%s} (mod 2^%d)%s; all numerators' % (
                ', '.join(str(v) for v in denom_lattice(t)), t.bits, ', every lane dividing by d, plus one obligation with a different lattice divisor in every lane' if vec else '')
        # broadcast construction Denominator<vec>(Denominator<T>(d))
        if vec:
            sct = 'Denom_' + el
            bc = find_ctor(c.db, c.P[1]['ctype'], [sct])
            sc = find_ctor(c.db, sct, [ELEM[el][2]])
            if bc and sc:
                k.denom['broadcast'] = (bc, sc)
                k.extra_roots += [bc, sc]
        if c.name in ('operator/', 'operator%'):
            fw = denom_forwarding(c, t, k, 'quot' if c.name == 'operator/' else 'rem')
            if fw:
                return fw
        return k
    if c.kind == 'function' and c.name in ('operator/=', 'operator%=') and len(c.P) == 2 and c.P[0]['ref'] and c.P[1]['ctype'].startswith('Denom_') and not c.P[1]['ref']:
        di = denom_info(c.P[1]['ctype'], S)
        if not di:
            return None
        t, el, vec = di
        if c.PT[0].ct != t.ct:
            return None
        lhs, dn = c.a(0), c.a(1)
        flds = dict(S[c.P[1]['ctype']])
        if 'd' in flds:
            dl = lambda i: t.lane('(%s).d' % dn, i)
        elif flds.get('m', '').startswith('Denom_'):
            st = T(ELEM[el][2], S)
            dl = lambda i: st.lane('(%s).m.d' % dn, 0)
        else:
            return None
        sp = ('spec_sdiv' if c.name == 'operator/=' else 'spec_srem') if t.signed else ('spec_udiv' if c.name == 'operator/=' else 'spec_urem')
        ens = []
        for i in range(t.W):
            ol = re.sub(r'\(\*%s\)' % re.escape(c.P[0]['name']), OLD('(*%s)' % c.P[0]['name']), t.lane(lhs, i))
            g = 'spec_div_defined(%s, %s, %d, %d)' % (ol, dl(i), t.bits, t.signed)
            ens.append(('%s lane %d' % (c.name, i), '!%s || %s == %s(%s, %s, %d)' % (g, t.lane(lhs, i), sp, ol, dl(i), t.bits)))
        ens.append(('returns the left operand', '%s == %s' % (RV, c.P[0]['name'])))
        req = ['spec_div_defined(%s, %s, %d, %d)' % (t.lane(lhs, 0), dl(0), t.bits, t.signed)] if t.W == 1 and not vec else []
        k = Contract('denom_' + c.name, ['C14', 'C15'] if not vec else ['C15'], requires=req, ensures=ens, assigns=['*%s' % c.P[0]['name']], cxx=None, flags=['div'])
        ctor = find_ctor(c.db, c.P[1]['ctype'], [t.ct])
        if not ctor:
            return None
        k.extra_roots = [ctor]
        k.denom = {'t': t, 'vec': vec, 'ctor': ctor, 'dct': c.P[1]['ctype'], 'nct': t.ct, 'lhs_ref': True}
        if t.bits > 8 or t.W > 1:
            k.partial = 'one obligation per divisor d of the lattice {%s} (mod 2^%d); all numerators' % (', '.join(str(v) for v in denom_lattice(t)), t.bits)
        if vec:
            sct = 'Denom_' + el
            bc = find_ctor(c.db, c.P[1]['ctype'], [sct])
            sc = find_ctor(c.db, sct, [ELEM[el][2]])
            if bc and sc:
                k.denom['broadcast'] = (bc, sc)
                k.extra_roots += [bc, sc]
        fw = denom_forwarding(c, t, k, 'quot' if c.name == 'operator/=' else 'rem')
        if fw:
            return fw
        return k
    if c.kind == 'method' and c.name == 'value' and fn.get('owner', '').startswith('Denom_') and not c.P:
        di = denom_info(fn['owner'], S)
        if not di:
            return None
        t, el, vec = di
        flds = dict(S[fn['owner']])
        if 'd' in flds:
            ens = [('value() lane %d' % i, '%s == %s' % (t.lane(RV, i), t.lane('(*this).d', i))) for i in range(t.W)]
        else:
            st = T(ELEM[el][2], S)
            ens = [('value()', '%s == %s' % (t.lane(RV, 0), st.lane('(*this).m.d', 0)))]
        return Contract('denom_value', ['C14', 'C15'] if not vec else ['C15'], ensures=ens, cxx='{this}.value()')
    return None


def same_val(a, b, ct, S):
    """bit-for-bit equality of two values of extracted type ct (records field by field, SIMD registers word by word)"""
    if ct in ('m128', 'm256', 'm512'):
        return ' && '.join('(%s).q[%d] == (%s).q[%d]' % (a, j, b, j) for j in range({'m128': 2, 'm256': 4, 'm512': 8}[ct]))
    if S.get(ct):
        return ' && '.join('(%s)' % same_val('(%s).%s' % (a, f), '(%s).%s' % (b, f), ft, S) for f, ft in S[ct])
    if ct == '_Bool':
        return '(_Bool)(%s) == (_Bool)(%s)' % (a, b)
    return '(%s) == (%s)' % (a, b)


def denom_forwarding(c, t, k, field):
    """operator / % /= %= with a Denominator forward to div(n, denom): forwarding contract for ALL numerators and ALL
    denominator objects (every field value), div replaced by an abstract contract as in div_forwarding"""
    S = c.S
    F = c.db['functions']
    nct, dct = t.ct, c.P[1]['ctype']
    callee = None
    seen = set()
    front = [c.fn['cname']]
    for _ in range(3):
        nxt = []
        for cn in front:
            for cal in (F.get(cn) or {}).get('calls', []):
                if cal in seen:
                    continue
                seen.add(cal)
                cf = F.get(cal)
                if not cf or cf.get('error'):
                    continue
                if cf.get('name') == 'div' and len(cf['params']) == 2 and cf['params'][0]['ctype'] == nct and cf['params'][1]['ctype'] == dct \
                        and not cf['params'][0]['ref'] and not cf['params'][1]['ref']:
                    callee = cal
                nxt.append(cal)
        front = nxt
        if callee:
            break
    if not callee:
        return None
    cf = F[callee]
    pn, pd = cf['params'][0]['name'], cf['params'][1]['name']
    rct = cf['ret']
    abstract = Contract('denom_div_abstract', [], requires=[same_val(pn, 'ghost_n', nct, S), same_val(pd, 'ghost_d', dct, S)],
                        ensures=[('abstract div', same_val(RV, 'ghost_dres', rct, S))])
    lhs_ref = c.P[0]['ref']
    target = '(*%s)' % c.P[0]['name'] if lhs_ref else RV
    ens = [('%s delivers the %s field of div(n, denom) lane %d' % (k.family, field, i), '%s == %s' % (t.lane(target, i), t.lane('ghost_dres.' + field, i))) for i in range(t.W)]
    if lhs_ref:
        ens.append(('returns the left operand', '%s == %s' % (RV, c.P[0]['name'])))
    k2 = Contract(k.family, k.props, requires=[], cxx=k.cxx, flags=[], assigns=list(k.assigns), ensures=ens)
    k2.ghosts = ['%s ghost_n;' % nct, '%s ghost_d;' % dct, '%s ghost_dres;' % rct]
    k2.setup = ['ghost_n = %s;' % ('a0_obj' if lhs_ref else 'a0'), 'ghost_d = a1;']
    k2.replace_with = {callee: abstract}
    k2.forwarding = True
    k2.fallback = k
    return k2


def denom_variants(k, tier):
    """expand a denominator div contract into obligations: (harness lines building the denominator, label)"""
    import copy
    d = k.denom
    t = d['t']
    lat = denom_lattice(t)
    quick = {3, 10, (1 << (t.bits - 1)) + 1, (1 << t.bits) - 1, 1, 1 << (t.bits - 1)}
    out = []

    def mk(label, dexprs, via_broadcast=False):
        c = copy.copy(k)
        sct = ELEM[t.elem][2]
        pre = ['%s a0;' % d['nct']]
        if d['vec']:
            if via_broadcast:
                bc, sc = d['broadcast']
                pre += ['%s a1 = %s(%s((%s)%s));' % (d['dct'], bc, sc, sct, dexprs[0])]
            else:
                pre += ['%s dv;' % d['nct']]
                rep = T(d['nct'], {d['nct']: [('content', t.repr)]}).repr
                if rep in ('m128', 'm256', 'm512'):
                    pre += ['dv.content = (%s){{0}};' % rep] + ['AVM_S%d(dv.content, %d, %s);' % (t.bits, i, dexprs[i % len(dexprs)]) for i in range(t.W)]
                else:
                    pre += ['dv.content = (%s)%s;' % (sct, dexprs[0])]
                pre += ['%s a1 = %s(dv);' % (d['dct'], d['ctor'])]
        else:
            pre += ['%s a1 = %s((%s)%s);' % (d['dct'], d['ctor'], sct, dexprs[0])]
        c.harness = {'pre': pre, 'args': ['&a0' if d.get('lhs_ref') else 'a0', 'a1']}
        c.part = label
        return c

    if d['dct'] in ('Denom_u32', 'Denom_u64') and k.family == 'denom_div':
        # code-level contract (modulo-lemma L3): for EVERY field value div evaluates the Granlund-Montgomery expression
        g = copy.copy(k)
        b = t.bits
        pn, pd = d['pn']
        g.requires = ['((%s).d == 1 || (%s).sh2 < %d)' % (pd, pd, b)]
        g.ensures = [('div evaluates the Granlund-Montgomery expression', 'spec_gm_div_u%d_ok((%s).quot, (%s).rem, %s, (%s).m, (%s).sh2, (%s).d)' % (b, RV, RV, pn, pd, pd, pd))]
        if b == 64 and 'AVM_MUL_u128' not in (getattr(k, 'fn_code', '') or ''):
            # portable branch (no __uint128_t product in the extracted text): the high half comes from four 32 x 32 partial
            # products; contract against the schoolbook formula (lemma L6)
            g.ensures = [('div evaluates the Granlund-Montgomery expression (high product from partial products)',
                          'spec_gm_div_u64_pp_ok((%s).quot, (%s).rem, %s, (%s).m, (%s).sh2, (%s).d)' % (RV, RV, pn, pd, pd, pd))]
            g.portable_pp = True
        g.harness = {'pre': ['%s a0;' % d['nct'], '%s a1;' % d['dct']], 'args': ['a0', 'a1']}
        g.extra_roots = []
        g.part = 'GM expression, all n, all field values'
        g.partial = None
        g.gm = True
        g.defines = ['AVM_MUL_UF']
        out.append(g)
    if d['vec'] and t.W > 1 and t.bits == 64 and not t.signed and k.family == 'denom_div' and 'sh1' in dict(k.S[d['dct']]):
        # 64-bit lanes, unsigned: same lane-wise code-level contract (modulo L3; q * d through vpmullq or the L1 emulation)
        g = copy.copy(k)
        pn, pd = d['pn']
        S = k.S
        sh1t = T(dict(S[d['dct']])['sh1'], S)
        if sh1t.kind == 'mask':
            g.requires = [sh1t.wf('(%s).sh1' % pd)]
            sh1v = lambda i: sh1t.view('(%s).sh1' % pd, i)
        else:
            g.requires = ['%s <= 1' % sh1t.lane('(%s).sh1' % pd, i) for i in range(t.W)]
            sh1v = lambda i: '(%s != 0)' % sh1t.lane('(%s).sh1' % pd, i)
        # every lane's post-shift is a valid shift amount (it is l - sh1 < 64 in any constructed object); the SSE2 per-lane
        # shift emulation is only specified for amounts up to the element width (C04)
        g.requires = list(g.requires) + ['%s < 64' % t.lane('(%s).sh2' % pd, i) for i in range(t.W)]
        g.ensures = [('div lane %d evaluates the Granlund-Montgomery expression of its lane' % i,
                      'spec_gm_div_u64_lane_ok(%s, %s, %s, %s, %s, %s, %s)' % (
                          t.lane('(%s).quot' % RV, i), t.lane('(%s).rem' % RV, i), t.lane(pn, i), t.lane('(%s).m' % pd, i),
                          sh1v(i), t.lane('(%s).sh2' % pd, i), t.lane('(%s).d' % pd, i))) for i in range(t.W)]
        g.harness = {'pre': ['%s a0;' % d['nct'], '%s a1;' % d['dct']], 'args': ['a0', 'a1']}
        g.extra_roots = []
        g.part = 'GM expression per lane, all n, all field values'
        g.partial = None
        g.gm = True
        g.defines = ['AVM_MUL_UF']
        out.append(g)
    if d['vec'] and t.W > 1 and t.bits == 32 and not t.signed and k.family == 'denom_div':
        # lane-wise code-level contract (modulo-lemma L3): for every field value, every lane of div evaluates the
        # Granlund-Montgomery expression of THAT lane's fields (lanes independent, divisors may differ per lane)
        g = copy.copy(k)
        pn, pd = d['pn']
        S = k.S
        sh1t = T(dict(S[d['dct']])['sh1'], S)      # a mask in the SSE2 branch, a vector of 0 / 1 in the AVX2 / AVX-512 branches
        if sh1t.kind == 'mask':
            g.requires = [sh1t.wf('(%s).sh1' % pd)]
            sh1v = lambda i: sh1t.view('(%s).sh1' % pd, i)
        else:
            g.requires = ['%s <= 1' % sh1t.lane('(%s).sh1' % pd, i) for i in range(t.W)]
            sh1v = lambda i: '(%s != 0)' % sh1t.lane('(%s).sh1' % pd, i)
        g.ensures = [('div lane %d evaluates the Granlund-Montgomery expression of its lane' % i,
                      'spec_gm_div_u32_lane_ok((uint32_t)%s, (uint32_t)%s, (uint32_t)%s, (uint32_t)%s, %s, (uint32_t)%s, (uint32_t)%s)' % (
                          t.lane('(%s).quot' % RV, i), t.lane('(%s).rem' % RV, i), t.lane(pn, i), t.lane('(%s).m' % pd, i),
                          sh1v(i), t.lane('(%s).sh2' % pd, i), t.lane('(%s).d' % pd, i))) for i in range(t.W)]
        g.harness = {'pre': ['%s a0;' % d['nct'], '%s a1;' % d['dct']], 'args': ['a0', 'a1']}
        g.extra_roots = []
        g.part = 'GM expression per lane, all n, all field values'
        g.partial = None
        g.gm = True
        g.defines = ['AVM_MUL_UF']
        out.append(g)
    if d['vec'] and t.W > 1 and t.bits == 64 and t.signed and k.family == 'denom_div' and 'mp' in dict(k.S[d['dct']]):
        g = copy.copy(k)
        pn, pd = d['pn']
        g.requires = ['(%s == 0 || %s == 0xffffffffffffffffull)' % (t.lane('(%s).d_sign' % pd, i), t.lane('(%s).d_sign' % pd, i)) for i in range(t.W)] + \
                     ['%s < 64' % t.lane('(%s).sh' % pd, i) for i in range(t.W)]
        g.ensures = [('div lane %d evaluates the signed Granlund-Montgomery expression of its lane' % i,
                      'spec_gm_div_i64_lane_ok(%s, %s, %s, %s, %s, %s, %s)' % (
                          t.lane('(%s).quot' % RV, i), t.lane('(%s).rem' % RV, i), t.lane(pn, i), t.lane('(%s).mp' % pd, i),
                          t.lane('(%s).d_sign' % pd, i), t.lane('(%s).sh' % pd, i), t.lane('(%s).d' % pd, i))) for i in range(t.W)]
        g.harness = {'pre': ['%s a0;' % d['nct'], '%s a1;' % d['dct']], 'args': ['a0', 'a1']}
        g.extra_roots = []
        g.part = 'signed GM expression per lane, all n, all field values'
        g.partial = None
        g.gm = True
        g.defines = ['AVM_MUL_UF']
        out.append(g)
    if d['vec'] and t.W > 1 and t.bits == 32 and t.signed and k.family == 'denom_div':
        # signed twin: every lane of div evaluates the signed Granlund-Montgomery expression of that lane's fields (modulo L4)
        g = copy.copy(k)
        pn, pd = d['pn']
        g.requires = ['(%s == 0 || %s == 0xffffffffull)' % (t.lane('(%s).d_sign' % pd, i), t.lane('(%s).d_sign' % pd, i)) for i in range(t.W)]
        g.ensures = [('div lane %d evaluates the signed Granlund-Montgomery expression of its lane' % i,
                      'spec_gm_div_i32_lane_ok((uint32_t)%s, (uint32_t)%s, (uint32_t)%s, (uint32_t)%s, (uint32_t)%s, (uint32_t)%s, (uint32_t)%s)' % (
                          t.lane('(%s).quot' % RV, i), t.lane('(%s).rem' % RV, i), t.lane(pn, i), t.lane('(%s).mp' % pd, i),
                          t.lane('(%s).d_sign' % pd, i), t.lane('(%s).sh' % pd, i), t.lane('(%s).d' % pd, i))) for i in range(t.W)]
        g.harness = {'pre': ['%s a0;' % d['nct'], '%s a1;' % d['dct']], 'args': ['a0', 'a1']}
        g.extra_roots = []
        g.part = 'signed GM expression per lane, all n, all field values'
        g.partial = None
        g.gm = True
        g.defines = ['AVM_MUL_UF']
        out.append(g)
    if d['dct'] in ('Denom_i32', 'Denom_i64') and k.family == 'denom_div':
        # signed code-level contract (modulo-lemma L4): for every field value with a valid shift amount and a sign word of
        # 0 / -1, div evaluates the signed Granlund-Montgomery expression.  Overflow-freedom of that evaluation depends on the
        # fields being those of a real divisor and is the business of the safety obligations below, not of this one.
        g = copy.copy(k)
        b = t.bits
        pn, pd = d['pn']
        ones = (1 << b) - 1
        g.requires = ['(uint%d_t)(%s).sh < %du' % (b, pd, b), '((uint%d_t)(%s).d_sign == 0 || (uint%d_t)(%s).d_sign == %dull)' % (b, pd, b, pd, ones)]
        g.ensures = [('div evaluates the signed Granlund-Montgomery expression',
                      'spec_gm_div_i%d_ok((uint%d_t)(%s).quot, (uint%d_t)(%s).rem, (uint%d_t)%s, (uint%d_t)(%s).mp, (uint%d_t)(%s).sh, (uint%d_t)(%s).d_sign, (uint%d_t)(%s).d)' % (
                          b, b, RV, b, RV, b, pn, b, pd, b, pd, b, pd, b, pd))]
        g.harness = {'pre': ['%s a0;' % d['nct'], '%s a1;' % d['dct']], 'args': ['a0', 'a1']}
        g.extra_roots = []
        g.part = 'signed GM expression, all n, all field values'
        g.partial = None
        g.gm = True
        g.defines = ['AVM_MUL_UF']
        g.cbmc_flags = ['--no-signed-overflow-check']
        out.append(g)
    if t.bits >= 32:
        # value obligations (quotient against the reference division) are beyond the SAT back ends at 32/64 bits even for
        # a constant divisor (measured); only the code-level contract above is discharged for these types -- plus, for the
        # scalar-backed forms, "using a denominator never traps / is never undefined": every safety obligation of div
        # (signed overflow, shift amounts, divide traps) for all n, the denominator built by the real constructor from each
        # lattice divisor; the only value clause kept is the one that needs no divider, rem == n - quot * d (mod 2^bits)
        if t.W == 1 and k.family == 'denom_div':
            pn, pd = d['pn']
            b = t.bits
            # divisors for which the overflow-freedom of the signed evaluation is within SAT reach (for the others it
            # needs the Granlund-Montgomery bounds themselves: measured > 200 s for 3, 7, -1, -2, -3, -7, -10)
            safe_lat = [1, 5, 10, 641, 1 << (b // 2), (1 << (b // 2)) + 1, (1 << (b - 1)) - 1, 1 << (b - 1), (1 << (b - 1)) + 1]
            for v in safe_lat:
                if tier == 'quick' and v not in (1, 10, 1 << (b - 1)):
                    continue
                c = mk('d=%d no trap, no undefined behaviour; rem == n - quot * d' % v, ['%dull' % v])
                c.ensures = [('remainder matches the quotient', '%s == spec_trunc(%s - %s * %dull, %d)' % (
                    t.lane('(%s).rem' % RV, 0), t.lane(pn, 0), t.lane('(%s).quot' % RV, 0), v, t.bits))]
                c.requires = ['spec_div_defined(%s, %dull, %d, %d)' % (t.lane(pn, 0), v, t.bits, t.signed)]
                c.partial = 'safety obligations and remainder consistency for all n, one obligation per divisor d in {%s}' % ', '.join(str(v) for v in safe_lat)
                out.append(c)
        return out
    if t.bits <= 8 and t.W == 1:
        # all divisors: symbolic d != 0
        c = mk('all d', ['d_in'])
        c.harness['pre'] = ['uint%d_t d_in = nondet_u%d();' % (8, 8), '__CPROVER_assume(d_in != 0);'] + c.harness['pre']
        c.partial = None
        out.append(c)
        if d['vec'] and d.get('broadcast'):
            c = mk('all d, broadcast from scalar Denominator', ['d_in'], via_broadcast=True)
            c.harness['pre'] = ['uint8_t d_in = nondet_u8();', '__CPROVER_assume(d_in != 0);'] + c.harness['pre']
            c.partial = None
            out.append(c)
        return out
    # quick tier (budget): three lattice divisors for the scalar-backed types, one for the SIMD types (150-240 s each), one
    # broadcast construction for the 128-bit types; the wider types' lattice obligations are thorough-only (quick_skip.json).
    # The thorough tier runs the whole lattice, every broadcast and the different-divisor-per-lane obligation for every type.
    wide = t.W * t.bits > 128
    simd = d['vec'] and t.W > 1
    qset = {3} if simd else {3, (1 << t.bits) - 1, 1}
    for v in lat:
        if tier != 'quick' or v in qset:
            out.append(mk('d=%d' % v, ['%dull' % v]))
        if d['vec'] and d.get('broadcast') and (tier != 'quick' or (v in (10, 1) and not wide)):
            out.append(mk('d=%d broadcast from scalar Denominator' % v, ['%dull' % v], via_broadcast=True))
    if simd and tier != 'quick':
        out.append(mk('different divisor per lane', ['%dull' % v for v in lat]))
    if tier != 'quick' and t.bits == 16 and t.W == 1 and not d['vec'] and k.family == 'denom_div':
        # full domain for the 16-bit scalar denominators: every divisor d != 0 and every n, split by the bit length of |d|
        # so that each case stays within SAT reach (60-220 s per case measured); the cases together cover all d != 0
        sct = ELEM[t.elem][2]
        mag = '(uint64_t)(uint16_t)(d_in < 0 ? -(int32_t)d_in : (int32_t)d_in)' if t.signed else '(uint64_t)d_in'
        for kk in range(0, 16 if t.signed else 17):
            c = mk('all d with ceil_log2(|d|) == %d' % kk, ['d_in'])
            c.harness['pre'] = ['%s d_in = nondet_%s16();' % (sct, 'i' if t.signed else 'u'), '__CPROVER_assume(d_in != 0);',
                                '__CPROVER_assume(spec_ceil_log2(%s, 16) == %du);' % (mag, kk)] + c.harness['pre']
            c.partial = None
            c.full_domain_split = True
            out.append(c)
    return out



# --------------------------------------------------------------------------------------------
# C16  mixed-signedness scalar comparisons: compare the mathematical integer values
# --------------------------------------------------------------------------------------------
CMPX = {'cmp_equal': '==', 'cmp_not_equal': '!=', 'cmp_less': '<', 'cmp_less_equal': '<=', 'cmp_greater': '>', 'cmp_greater_equal': '>='}


@family
def f_cmp_mixed(c):
    if c.kind != 'function' or c.name not in CMPX or len(c.P) != 2 or c.RT.kind != 'bool':
        return None
    a, b = c.PT
    if a.kind != 'scalar' or b.kind != 'scalar' or not a.isint or not b.isint or a.bits != b.bits:
        return None
    if a.bits == 64:
        # mathematical comparison of a 64-bit signed with a 64-bit unsigned value: in 128-bit signed arithmetic
        va = '(__int128)%s' % ('(int64_t)%s' % c.a(0) if a.signed else '(uint64_t)%s' % c.a(0))
        vb = '(__int128)%s' % ('(int64_t)%s' % c.a(1) if b.signed else '(uint64_t)%s' % c.a(1))
    else:
        va = 'spec_sx(%s, %d)' % (a.lane(c.a(0), 0), a.bits) if a.signed else '(int64_t)%s' % a.lane(c.a(0), 0)
        vb = 'spec_sx(%s, %d)' % (b.lane(c.a(1), 0), b.bits) if b.signed else '(int64_t)%s' % b.lane(c.a(1), 0)
    return Contract('cmp_mixed_' + c.name, ['C16'], ensures=[(c.name, '%s == (_Bool)(%s %s %s)' % (RV, va, CMPX[c.name], vb))], cxx='avel::%s({0}, {1})' % c.name)


# --------------------------------------------------------------------------------------------
# C17  conversions
# --------------------------------------------------------------------------------------------
@family
def f_convert(c):
    if c.kind == 'function' and c.name == 'convert' and len(c.P) == 1 and not c.P[0]['ref']:
        m = re.match(r'^Arr_(\w+)_(\d+)$', c.fn['ret'])
        if not m or int(m.group(2)) != 1:
            return None
        src = c.PT[0]
        dst = T(m.group(1), c.S)
        if src.kind == 'vec' and dst.kind == 'vec' and src.W == dst.W and src.isint and dst.isint:
            # static_cast semantics between integer element types: truncate or extend by the SOURCE signedness
            ens = []
            for i in range(src.W):
                v = 'spec_sx(%s, %d)' % (src.lane(c.a(0), i), src.bits) if src.signed else '(int64_t)%s' % src.lane(c.a(0), i)
                ens.append(('convert lane %d' % i, '%s == ((uint64_t)(%s) & spec_mask(%d))' % (dst.lane('(%s)._M_elems[0]' % RV, i), v, dst.bits)))
            return Contract('convert_vec', ['C17'], ensures=ens, cxx='avel::convert<%s>({0})' % dst.cxx())
        if src.kind == 'mask' and dst.kind == 'mask' and src.W == dst.W:
            ens = [('mask well-formed', dst.wf('(%s)._M_elems[0]' % RV))]
            ens += [('convert mask lane %d' % i, '%s == %s' % (dst.view('(%s)._M_elems[0]' % RV, i), src.view(c.a(0), i))) for i in range(src.W)]
            return Contract('convert_mask', ['C17'], ensures=ens, cxx='avel::convert<%s>({0})' % dst.cxx())
        return None
    if c.kind == 'ctor' and c.OT and len(c.P) == 1 and not c.P[0]['ref']:
        src, dst = c.PT[0], c.OT
        if src.kind == 'vec' and dst.kind == 'vec' and src.W == dst.W and src.ct != dst.ct and src.isint and dst.isint:
            ens = []
            for i in range(src.W):
                v = 'spec_sx(%s, %d)' % (src.lane(c.a(0), i), src.bits) if src.signed else '(int64_t)%s' % src.lane(c.a(0), i)
                ens.append(('Vector(Vector<U>) lane %d' % i, '%s == ((uint64_t)(%s) & spec_mask(%d))' % (dst.lane(RV, i), v, dst.bits)))
            return Contract('convert_ctor_vec', ['C17'], ensures=ens, cxx='%s({0})' % dst.cxx())
        if src.kind == 'mask' and dst.kind == 'mask' and src.W == dst.W and src.ct != dst.ct:
            ens = [('mask well-formed', dst.wf(RV))]
            ens += [('Vector_mask(Vector_mask<U>) lane %d' % i, '%s == %s' % (dst.view(RV, i), src.view(c.a(0), i))) for i in range(src.W)]
            return Contract('convert_ctor_mask', ['C17'], ensures=ens, cxx='%s({0})' % dst.cxx())
    return None



# --------------------------------------------------------------------------------------------
# C20  prefetch: any pointer, any count, no access, termination
# --------------------------------------------------------------------------------------------
@family
def f_prefetch(c):
    if c.kind != 'function' or c.name not in ('prefetch_read', 'prefetch_write') or len(c.P) != 2:
        return None
    if not c.P[0]['ctype'].endswith('*') or c.P[1]['ctype'] not in ('uint64_t', 'size_t'):
        return None
    n = c.P[1]['name']
    lvl = c.targs[0] if c.targs else 0
    typed = len(c.targs) > 1
    esz = {'int32_t*': 4, 'double*': 8}.get(c.P[0]['ctype'], 1)
    # counts whose byte size reaches the last cache line before SIZE_MAX are excluded: the loop would need > 2^57 iterations
    # to get there, and the index would wrap instead of terminating -- no caller can observe the difference
    k = Contract('prefetch' + ('_typed' if typed else ''), ['C20'], requires=['%s <= (size_t)0xffffffffffffff00ull / %d' % (n, esz)], ensures=[], assigns=[],
                 cxx=None)
    if typed:
        # modular: the untyped overload is replaced by its contract (its pre-condition is checked at the call site)
        k.replace_callees = lambda f: f.get('name') == c.name and len(f.get('targs', [])) == 1
    if c.fn.get('loops'):
        # for (i = 0; i < n; i += line): i only grows, stays a multiple of the line size, and the distance to n shrinks
        k.loops = {1: '    __CPROVER_assigns(i)\n    __CPROVER_loop_invariant(i % increment == 0 && (i == 0 || i - increment < n))\n'
                      '    __CPROVER_decreases((i < n) ? (n - i) : 0)\n'.replace('(n', '(%s' % n).replace('< n', '< %s' % n)}
    k.harness = {'pre': ['%s p_in;' % c.P[0]['ctype'], 'size_t n_in = nondet_sz();'], 'args': ['p_in', 'n_in']}
    # replay: the real function on null / misaligned-invalid / inaccessible-page pointers with the counterexample's count
    k.prefetch = {'name': c.name, 'level': lvl, 'elem': {'int32_t*': 'std::int32_t', 'double*': 'double'}.get(c.P[0]['ctype']) if typed else None}
    if c.fn.get('loops'):
        # the loop contract above is written for the loop as it stands (for (i = 0; i < n; i += increment)).  If the loop
        # is rewritten the clauses no longer apply (they do not even compile when the counter is renamed): BOUNDED stand-in,
        # labelled as such -- counts up to 256 bytes, the loop unwound 12 times with unwinding assertions; a failure is
        # reported only if the real code hangs or faults on it (replay)
        k.bounded_fallback = {'requires': ['%s <= 256' % n], 'unwind': 12}
    return k


# --------------------------------------------------------------------------------------------
# C18  Aligned_allocator
# --------------------------------------------------------------------------------------------
def alloc_info(owner, S, P):
    m = re.match(r'^Alloc_(\w+)_(\d+)$', owner or '')
    if not m:
        return None
    return int(m.group(2))


@family
def f_allocator(c):
    if c.kind != 'method' or not (c.fn.get('owner') or '').startswith('Alloc_'):
        return None
    A = alloc_info(c.fn['owner'], c.S, c.P)
    if c.name == 'allocate' and c.P and c.P[0]['ctype'] in ('uint64_t', 'size_t') and c.fn['ret'].endswith('*'):
        et = c.fn['ret'][:-1]
        n = c.P[0]['name']
        ens = [('result aligned to the allocator alignment', '((avm_base_mod + (size_t)__CPROVER_POINTER_OFFSET(%s)) %% %d) == 0' % (RV, A)),
               ('n elements are writable', '__CPROVER_w_ok(%s, %s * sizeof(%s))' % (RV, n, et))]
        k = Contract('alloc_allocate', ['C18'], requires=['%s <= (size_t)(1u << 24)' % n], ensures=ens, assigns=['avm_base_mod'], cxx=None)
        k.harness = {'pre': ['%s self_obj;' % c.fn['owner'], 'size_t n_in = nondet_sz();'] + (['void* hint = 0;'] if len(c.P) == 2 else []),
                     'args': ['&self_obj', 'n_in'] + (['hint'] if len(c.P) == 2 else [])}
        return k
    if c.name == 'deallocate' and len(c.P) == 2 and c.P[0]['ctype'].endswith('*'):
        et = c.P[0]['ctype'][:-1]
        alloc = None
        for cn, f in c.db['functions'].items():
            if f.get('name') == 'allocate' and f.get('owner') == c.fn['owner'] and len(f.get('params', [])) == 1 and not f.get('error'):
                alloc = cn
        if not alloc:
            return None
        k = Contract('alloc_deallocate', ['C18'], ensures=[], assigns=['avm_base_mod', '__CPROVER_object_whole(%s)' % c.P[0]['name']], cxx=None)
        k.extra_roots = [alloc]
        k.frees = ['avm_blk_base']
        # history: allocate a second, still live block b; fill every byte of both; release a; b must be intact and still writable
        k.harness = {'pre': ['%s self_obj;' % c.fn['owner'], 'size_t n_in = nondet_sz();', '__CPROVER_assume(n_in <= (size_t)(1u << 24));',
                             '%s* blk = %s(&self_obj, n_in);' % (et, alloc),
                             'avm_blk_base = (char*)blk - __CPROVER_POINTER_OFFSET(blk);',
                             '__CPROVER_havoc_slice(blk, n_in * sizeof(%s));' % et],
                     'args': ['&self_obj', 'blk', 'n_in']}
        k.cbmc_flags = ['--memory-leak-check']
        return k
    if c.name in ('operator==', 'operator!=') and len(c.P) == 1:
        return Contract('alloc_' + c.name, ['C18'], ensures=[('allocators always compare equal', '%s == %d' % (RV, 1 if c.name == 'operator==' else 0))], cxx=None)
    return None


def contract_for(fn, db):
    if fn.get('error'):
        return None
    c = Ctx(fn, db)
    for f in FAMILIES:
        r = f(c)
        if r is not None:
            # type invariants of the inputs: bool parameters / bool arrays / masks hold valid values
            inv = []
            for i, p in enumerate(c.P):
                ct = p['ctype'][:-1] if p['ref'] else p['ctype']
                e = pexpr(p)
                if ct == '_Bool':
                    inv.append(BOOL_OK(e))
                n = arr_bool(ct)
                if n:
                    inv += [BOOL_OK('(%s)._M_elems[%d]' % (e, k)) for k in range(n)]
                if c.PT[i].kind == 'mask':
                    w = c.PT[i].wf(e)
                    if w != '1' and w not in r.requires:
                        inv.append(w)
            if c.kind in ('method', 'conv') and c.OT is not None and c.OT.kind == 'mask':
                w = c.OT.wf('(*this)')
                if w != '1' and w not in r.requires:
                    inv.append(w)
            r.requires = inv + [q for q in r.requires if q not in inv]
            return r
    return None


# names of API functions per property: a function with one of these names that fails to extract is
# reported as an extraction problem for that property (never silently skipped)
PROPERTY_NAMES = {
    'C01': set(ARITH) | set(ARITH_BIN) | {'operator++', 'operator--'},
    'C02': set(CMP),
    'C03': {'count', 'any', 'all', 'none', 'extract', 'insert', 'set_bits', 'operator!', 'operator&&', 'operator||'},
    'C04': set(BITOPS) | set(BITOPS_BIN) | {'operator~', 'operator<<=', 'operator>>=', 'operator<<', 'operator>>', 'bit_shift_left', 'bit_shift_right', 'rotl', 'rotr'},
    'C05': {'div', 'operator/=', 'operator%=', 'operator/', 'operator%'},
    'C06': set(BITFN) | {'has_single_bit'},
    'C10': {'sqrt'},
    'C11': {'ceil', 'floor', 'trunc', 'round', 'nearbyint', 'rint'},
    'C12': {'frexp', 'ldexp', 'scalbn', 'ilogb', 'logb', 'frac', 'fmax', 'fmin', 'fdim'},
    'C13': {'fpclassify', 'isnan', 'isinf', 'isfinite', 'isnormal', 'signbit', 'isgreater', 'isgreaterequal', 'isless', 'islessequal', 'islessgreater', 'isunordered'},
    'C18': {'allocate', 'deallocate'},
    'C20': {'prefetch_read', 'prefetch_write'},
    'C16': set(CMPX),
    'C17': {'convert'},
    'C14': {'Denominator', 'value'},
    'C15': {'Denominator', 'value'},
    'C08': {'load', 'aligned_load', 'store', 'aligned_store', 'gather', 'scatter', 'to_array', 'extract', 'insert'},
    'C09': {'load', 'aligned_load', 'store', 'aligned_store', 'gather', 'scatter'},
    'C07': {'blend', 'keep', 'clear', 'negate', 'min', 'max', 'minmax', 'clamp', 'abs', 'neg_abs', 'average', 'midpoint', 'copysign'},
}


def name_in_property(name, prop):
    return name in PROPERTY_NAMES.get(prop, ())


def looks_like_api(fn, db):
    """a function whose name belongs to some property and whose signature involves AVEL vector / mask / denominator /
    allocator types or arithmetic scalars: if no family claims it, it is a coverage gap worth reporting"""
    if fn.get('error') or not any(fn.get('name') in v for v in PROPERTY_NAMES.values()):
        return False
    cts = [p['ctype'] for p in fn.get('params', [])] + [fn.get('owner') or '', fn.get('ret') or '']
    return any(re.match(r'^(Vec|Mask|Denom|Alloc)_', x.rstrip('*')) for x in cts)
