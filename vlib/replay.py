"""replay.py -- counterexample -> replay against the REAL C++ code (DESIGN.md 3.8), and known findings.

A replay file (JSON) is self-contained: it names the property, the function, the configuration, the failed
obligations, the inputs (bytes of every harness object) and carries the generated C++ program.  The program
includes the real <avel/Avel.hpp> from /repo, calls the real function on the counterexample inputs and
evaluates the contract's ensures clauses natively (the same spec functions, compiled as C++), with UBSan on.
"""
import os, re, json, subprocess, hashlib
import pipeline as P
import families
from cxx2c import struct_order, Emitter

SIZES = {'uint8_t': 1, 'int8_t': 1, '_Bool': 1, 'char': 1, 'uint16_t': 2, 'int16_t': 2, 'uint32_t': 4, 'int32_t': 4, 'float': 4,
         'uint64_t': 8, 'int64_t': 8, 'double': 8, 'long long': 8, 'unsigned long long': 8, 'size_t': 8, 'm128': 16, 'm256': 32, 'm512': 64}


def sizeof(ct, structs):
    m = re.match(r'^(.*)\[(\d+)\]$', ct)
    if m:
        return sizeof(m.group(1), structs) * int(m.group(2))
    if ct.endswith('*'):
        return 8
    if ct in SIZES:
        return SIZES[ct]
    if ct in structs:
        # all AVEL records are naturally aligned aggregates of equal-alignment members; compute with padding
        off = 0
        al = 1
        for f, t in structs[ct]:
            a = alignof(t, structs)
            off = (off + a - 1) // a * a
            off += sizeof(t, structs)
            al = max(al, a)
        return (off + al - 1) // al * al
    raise ValueError('sizeof ' + ct)


def alignof(ct, structs):
    m = re.match(r'^(.*)\[(\d+)\]$', ct)
    if m:
        return alignof(m.group(1), structs)
    if ct.endswith('*'):
        return 8
    if ct in ('m128', 'm256', 'm512'):
        return 8      # the C twin is struct { uint64_t q[] }
    if ct in SIZES:
        return SIZES[ct]
    if ct in structs:
        return max(alignof(t, structs) for f, t in structs[ct])
    raise ValueError('alignof ' + ct)


def to_bytes(val, ct, structs):
    """flatten a CBMC trace value (as produced by pipeline._val) into little-endian bytes of C type ct"""
    n = sizeof(ct, structs)
    if val is None:
        return bytes(n)
    m = re.match(r'^(.*)\[(\d+)\]$', ct)
    if m:
        el = m.group(1)
        out = b''
        vals = val if isinstance(val, list) else []
        for i in range(int(m.group(2))):
            out += to_bytes(vals[i] if i < len(vals) else None, el, structs)
        return out
    if ct in ('m128', 'm256', 'm512'):
        q = (val or {}).get('q') if isinstance(val, dict) else None
        return to_bytes(q, 'uint64_t[%d]' % (n // 8), structs)
    if ct in structs:
        out = b''
        for f, t in structs[ct]:
            a = alignof(t, structs)
            while len(out) % a:
                out += b'\0'
            out += to_bytes(val.get(f) if isinstance(val, dict) else None, t, structs)
        while len(out) < n:
            out += b'\0'
        return out
    if isinstance(val, dict) and val.get('bin'):
        b = val['bin']
        iv = int(b, 2)
        return iv.to_bytes(n, 'little')
    return bytes(n)


def merge_assignments(var, assigns, ct, structs):
    """assignments is {lhs: value}; whole-object assignment plus later member-wise updates"""
    base = assigns.get(var)
    data = bytearray(to_bytes(base, ct, structs))
    # member-wise assignments like a0.content.q[1] are rare (harness objects are assigned as a whole); ignored if absent
    return bytes(data)


CXX_OF = {'_Bool': 'bool', 'long long': 'long long', 'unsigned long long': 'unsigned long long', 'size_t': 'std::size_t'}


def cxx_type(ct, structs):
    t = families.T(ct, structs)
    c = t.cxx()
    if c:
        return c
    m = re.match(r'^Denom_(\w+)$', ct)
    if m:
        inner = m.group(1)
        if inner in families.ELEM:
            return 'avel::Denominator<%s>' % families.CXX_ELEM[inner]
        return 'avel::Denominator<%s>' % cxx_type(inner, structs)
    m = re.match(r'^Div_(\w+)$', ct)
    if m:
        inner = m.group(1)
        if inner in families.ELEM:
            return 'avel::div_type<%s>' % families.CXX_ELEM[inner]
        return 'avel::div_type<%s>' % cxx_type(inner, structs)
    m = re.match(r'^Arr_(\w+)_(\d+)$', ct)
    if m:
        inner = m.group(1)
        el = families.CXX_ELEM.get(inner) or ('bool' if inner == 'b' else cxx_type(inner, structs))
        return 'std::array<%s, %s>' % (el, m.group(2))
    if ct in CXX_OF:
        return CXX_OF[ct]
    if ct in families.CT2ELEM:
        return families.CXX_ELEM[families.CT2ELEM[ct]]
    if ct.endswith('*'):
        return cxx_type(ct[:-1], structs) + '*'
    return ct


def old_subst(expr):
    """rewrite __CPROVER_old(e) into e over the pre-state copies"""
    out = ''
    i = 0
    key = '__CPROVER_old('
    while True:
        j = expr.find(key, i)
        if j < 0:
            out += expr[i:]
            break
        out += expr[i:j]
        k = j + len(key)
        depth = 1
        while depth:
            if expr[k] == '(':
                depth += 1
            elif expr[k] == ')':
                depth -= 1
            k += 1
        inner = expr[j + len(key):k - 1]
        inner = re.sub(r'\bthis\b', 'self_pre', inner)
        inner = re.sub(r'\(\*(\w+)\)', lambda m: '(*%s_pre)' % m.group(1) if not m.group(1).startswith('self_') else m.group(0), inner)
        out += '(' + inner + ')'
        i = k
    return re.sub(r'\bthis\b', 'self_post', out)


def hexbytes(b):
    return ', '.join('0x%02x' % x for x in b) or '0'


def gen_program(fn, contract, db, inputs_bytes, rm=None):
    S = db['structs']
    lines = ['// generated replay: real AVEL code on a verifier counterexample',
             '#include <avel/Avel.hpp>', '#include <avel/Aligned_allocator.hpp>', '#include <cstring>', '#include <cstdio>', '#include <cstdint>',
             '#include <cmath>', '#include <array>',
             '#define AVM_NATIVE 1', '#include "avm_native.h"', '#include "spec_int.h"', '#include "spec_float.h"']
    # C twins of the records
    for nm in struct_order(S):
        lines.append('typedef struct %s { %s } %s;' % (nm, ' '.join(Emitter.decl(t, f) + ';' for f, t in S[nm]), nm))
    lines.append('template<class A, class B> static void cp(A& a, const B& b) { static_assert(sizeof(A) == sizeof(B), "twin size"); std::memcpy(&a, &b, sizeof(A)); }')
    lines.append('#include <cfenv>')
    lines.append('#include <xmmintrin.h>')
    lines.append('int main() {')
    lines.append('  int fails = 0;')
    lines.append('  std::fesetround(%s);' % {0: 'FE_TONEAREST', 1: 'FE_DOWNWARD', 2: 'FE_UPWARD', 3: 'FE_TOWARDZERO'}.get(rm if rm is not None else 0, 'FE_TONEAREST'))
    lines.append('  const unsigned csr_before = _mm_getcsr() & ~0x3fu; const int rm_before = std::fegetround();')
    callargs = {}
    has_this = fn['kind'] in ('method', 'conv') and not fn.get('static')
    if has_this:
        ct = fn['owner']
        b = inputs_bytes.get('self_obj', bytes(sizeof(ct, S)))
        lines.append('  static const unsigned char self_b[] = {%s};' % hexbytes(b))
        lines.append('  alignas(64) unsigned char self_store[sizeof(%s)]; std::memcpy(self_store, self_b, sizeof self_store); %s& self_real = *reinterpret_cast<%s*>(self_store);' % (
            cxx_type(ct, S), cxx_type(ct, S), cxx_type(ct, S)))
        lines.append('  %s self_pre_o; std::memcpy(&self_pre_o, self_b, sizeof self_pre_o); %s* self_pre = &self_pre_o;' % (ct, ct))
        callargs['this'] = 'self_real'
    for i, p in enumerate(fn['params']):
        ct = p['ctype'][:-1] if p['ref'] else p['ctype']
        var = 'a%d_obj' % i if p['ref'] else 'a%d' % i
        b = inputs_bytes.get(var, bytes(sizeof(ct, S)))
        lines.append('  static const unsigned char a%d_b[] = {%s};' % (i, hexbytes(b)))
        lines.append('  alignas(64) unsigned char a%d_store[sizeof(%s)]; std::memcpy(a%d_store, a%d_b, sizeof a%d_store); %s& a%d_real = *reinterpret_cast<%s*>(a%d_store);' % (
            i, cxx_type(ct, S), i, i, i, cxx_type(ct, S), i, cxx_type(ct, S), i))
        if p['ref']:
            lines.append('  %s %s_pre_o; std::memcpy(&%s_pre_o, a%d_b, sizeof(%s)); %s* %s_pre = &%s_pre_o;' % (ct, p['name'], p['name'], i, ct, ct, p['name'], p['name']))
            lines.append('  %s %s_post_o; %s* %s = &%s_post_o;' % (ct, p['name'], ct, p['name'], p['name']))
        else:
            lines.append('  %s %s; std::memcpy(&%s, a%d_b, sizeof(%s));' % (ct, p['name'], p['name'], i, ct))
        callargs[str(i)] = 'a%d_real' % i
    call = contract.cxx
    call = call.replace('{this}', callargs.get('this', ''))
    for k, v in callargs.items():
        call = call.replace('{%s}' % k, v)
    for i, ta in enumerate(fn.get('targs', [])):
        call = call.replace('{T%d}' % i, str(ta))
    rct = fn['ret'][:-1] if fn.get('ret_ref') else fn['ret']
    if fn['ret'] == 'void':
        lines.append('  %s;' % call)
    elif fn.get('ret_ref'):
        lines.append('  auto& ret_real = %s;' % call)
        lines.append('  bool ret_is_this = %s;' % ('(&ret_real == &self_real)' if has_this else 'false'))
    else:
        lines.append('  auto ret_real = %s;' % call)
        lines.append('  %s ret_c; cp(ret_c, ret_real);' % rct)
    if has_this:
        lines.append('  %s self_post_o; cp(self_post_o, self_real); %s* self_post = &self_post_o;' % (fn['owner'], fn['owner']))
    for i, p in enumerate(fn['params']):
        if p['ref']:
            lines.append('  cp(%s_post_o, a%d_real);' % (p['name'], i))
    lines.append('  if ((_mm_getcsr() & ~0x3fu) != csr_before || std::fegetround() != rm_before) { std::printf("ENSURES FAILED: floating-point environment (MXCSR / rounding mode) not left as found\\n"); fails++; }')
    for lab, e in contract.ensures:
        ee = old_subst(e)
        if fn.get('ret_ref'):
            ee = ee.replace('__CPROVER_return_value == self_post', 'ret_is_this')
        ee = ee.replace('__CPROVER_return_value', 'ret_c')
        lines.append('  if (!(%s)) { std::printf("ENSURES FAILED: %s\\n"); fails++; }' % (ee, lab.replace('"', "'").replace('%', '%%')))
    lines.append('  if (avm_native_assert_failures) { fails += avm_native_assert_failures; }')
    lines.append('  std::printf(fails ? "REPLAY: property violated on the real code (%d failing clause(s))\\n" : "REPLAY: real code satisfies the contract on this input\\n", fails);')
    lines.append('  return fails ? 1 : 0;')
    lines.append('}')
    return '\n'.join(lines) + '\n'


def gen_mem_program(fn, contract, db, inputs_bytes, n_value, misalign=0):
    """loads / stores: the addressed elements are placed flush against an inaccessible page (once ending at the page
    boundary, once starting on it); a fault, a failed ensures clause or a changed sentinel byte confirms"""
    S = db['structs']
    mem = contract.mem
    ect, W = mem['elem'], mem['W']
    cxxe = families.CXX_ELEM[families.CT2ELEM[ect]]
    lines = ['// generated replay (memory footprint): real AVEL code next to PROT_NONE pages',
             '#include <avel/Avel.hpp>', '#include <cstring>', '#include <cstdio>', '#include <cstdint>', '#include <csignal>', '#include <csetjmp>',
             '#include <sys/mman.h>', '#include <unistd.h>', '#define AVM_NATIVE 1', '#include "avm_native.h"', '#include "spec_int.h"', '#include "spec_float.h"']
    for nm in struct_order(S):
        lines.append('typedef struct %s { %s } %s;' % (nm, ' '.join(Emitter.decl(t, f) + ';' for f, t in S[nm]), nm))
    lines.append('template<class A, class B> static void cp(A& a, const B& b) { static_assert(sizeof(A) == sizeof(B), "twin size"); std::memcpy(&a, &b, sizeof(A)); }')
    lines.append('static sigjmp_buf jb; static void on_fault(int) { siglongjmp(jb, 1); }')
    lines.append('int main() {')
    lines.append('  int fails = 0; const long pg = sysconf(_SC_PAGESIZE);')
    lines.append('  std::signal(SIGSEGV, on_fault); std::signal(SIGBUS, on_fault);')
    lines.append('  static const unsigned char init_b[] = {%s};' % hexbytes(inputs_bytes.get('init', bytes(W * sizeof(ect, S)))))
    lines.append('  const std::uint32_t n_in = %du; const std::uint32_t cnt = n_in < %du ? n_in : %du;' % (n_value, W, W))
    lines.append('  const std::uint32_t objn = %s;' % ('%du' % W if mem.get('aligned') else 'cnt'))
    vct = None
    if mem['kind'] == 'store':
        vct = fn['params'][1]['ctype']
        lines.append('  static const unsigned char v_b[] = {%s};' % hexbytes(inputs_bytes.get('a1', bytes(sizeof(vct, S)))))
        lines.append('  %s v_real; std::memcpy(&v_real, v_b, sizeof v_real); %s %s; std::memcpy(&%s, v_b, sizeof(%s));' % (
            cxx_type(vct, S), vct, fn['params'][1]['name'], fn['params'][1]['name'], vct))
    pn = fn['params'][0]['name']
    if mem.get('nparam'):
        lines.append('  const std::uint32_t %s = n_in;' % fn['params'][-1]['name'])
    # placement 2 (unaligned forms only): the elements start at a misaligned address well inside accessible memory -- an
    # alignment-requiring instruction (movdqa / movaps) raises #GP there
    esz = sizeof(ect, S)
    mis = misalign if (misalign and misalign % esz == 0) else esz
    lines.append('  for (int placement = 0; placement < %d; placement++) {' % (2 if mem.get('aligned') else 3))
    lines.append('    unsigned char* region = (unsigned char*)mmap(0, 3 * pg, PROT_READ | PROT_WRITE, MAP_PRIVATE | MAP_ANONYMOUS, -1, 0);')
    lines.append('    std::memset(region, 0xA5, 3 * pg); mprotect(region, pg, PROT_NONE); mprotect(region + 2 * pg, pg, PROT_NONE);')
    lines.append('    const size_t bytes = (size_t)objn * sizeof(%s);' % cxxe)
    lines.append('    unsigned char* base = placement == 0 ? region + 2 * pg - bytes : (placement == 1 ? region + pg : region + pg + 256 + %d);' % mis)
    if mem.get('aligned'):
        lines.append('    if (((uintptr_t)base) %% %d != 0) continue;' % (W * sizeof(ect, S)))
    lines.append('    std::memcpy(base, init_b, bytes);')
    lines.append('    %s* %s = (%s*)base;' % (cxxe, pn, cxxe))
    lines.append('    unsigned char before[4096 * 3]; std::memcpy(before + pg, region + pg, pg);')
    lines.append('    if (sigsetjmp(jb, 1) == 0) {')
    call = contract.cxx.replace('{0}', pn).replace('{1}', 'v_real' if mem['kind'] == 'store' else 'n_in').replace('{2}', 'n_in')
    if mem['kind'] == 'load':
        lines.append('      auto ret_real = %s;' % call)
        lines.append('      %s ret_c; cp(ret_c, ret_real);' % fn['ret'])
    else:
        lines.append('      %s;' % call)
    for lab, e in contract.ensures:
        ee = old_subst_mem(e, pn, ect)
        ee = ee.replace('__CPROVER_return_value', 'ret_c')
        lines.append('      if (!(%s)) { std::printf("ENSURES FAILED (placement %%d): %s\\n", placement); fails++; }' % (ee, lab.replace('"', "'").replace('%', '%%')))
    lines.append('      const size_t wr = (size_t)cnt * sizeof(%s);' % cxxe)
    lines.append('      for (long i = 0; i < pg; i++) { unsigned char* q = region + pg + i; bool inside = q >= base && q < base + wr;')
    lines.append('        if (!inside && *q != before[pg + i]) { std::printf("BYTE OUTSIDE THE ADDRESSED ELEMENTS CHANGED at offset %ld (placement %d)\\n", (long)(q - base), placement); fails++; break; } }')
    lines.append('    } else { std::printf("FAULT: the call touched inaccessible memory next to the addressed elements (placement %d: elements %s)\\n", placement, placement == 0 ? "end at a page boundary" : (placement == 1 ? "start on a page boundary" : "at a misaligned address inside accessible memory: an alignment-requiring instruction faulted")); fails++; }')
    lines.append('    munmap(region, 3 * pg);')
    lines.append('  }')
    lines.append('  std::printf(fails ? "REPLAY: property violated on the real code (%d)\\n" : "REPLAY: real code satisfies the contract on this input\\n", fails);')
    lines.append('  return fails ? 1 : 0;')
    lines.append('}')
    return '\n'.join(lines) + '\n'


def gen_gs_program(fn, contract, db, ib, n_value, len_value):
    """gather / scatter: the real function on the counterexample's indices, count and (scatter) values.  The object has the
    counterexample's number of elements and ENDS at an inaccessible page (start preceded by one); for the far-index twin it is a
    sparse MAP_NORESERVE mapping in which only the addressed elements carry a per-lane pattern.  A fault, a lane that is not the
    addressed element (gather), an addressed element that is not the lane's value or a changed other element (scatter) confirms."""
    S = db['structs']
    g = contract.gs
    ect, W = g['elem'], g['W']
    cxxe = families.CXX_ELEM[families.CT2ELEM[ect]]
    icxx = {8: 'std::int8_t', 16: 'std::int16_t', 32: 'std::int32_t', 64: 'std::int64_t'}[g['ibits']]
    esz = sizeof(ect, S)
    L = W + 1
    lines = ['// generated replay (gather / scatter): real AVEL code, object flush against PROT_NONE pages',
             '#include <avel/Avel.hpp>', '#include <cstring>', '#include <cstdio>', '#include <cstdint>', '#include <csignal>', '#include <csetjmp>',
             '#include <sys/mman.h>', '#include <unistd.h>']
    lines.append('static sigjmp_buf jb; static void on_fault(int) { siglongjmp(jb, 1); }')
    lines.append('int main() {')
    lines.append('  int fails = 0; const std::size_t pg = (std::size_t)sysconf(_SC_PAGESIZE);')
    lines.append('  std::signal(SIGSEGV, on_fault); std::signal(SIGBUS, on_fault);')
    lines.append('  const std::size_t len = %dull; const bool far_object = %s;' % (len_value, 'true' if g['far'] else 'false'))
    lines.append('  static const unsigned char init_b[] = {%s};' % hexbytes(ib.get('init', bytes(L * esz))))
    lines.append('  static const unsigned char idx_b[] = {%s};' % hexbytes(ib['idx']))
    lines.append('  %s idx_real; static_assert(sizeof(idx_real) == sizeof(idx_b), "index vector size"); std::memcpy(&idx_real, idx_b, sizeof idx_real);' % cxx_type(g['it'], S))
    lines.append('  %s idx[%d]; static_assert(sizeof(idx) == sizeof(idx_b), "index lanes"); std::memcpy(idx, idx_b, sizeof idx);' % (icxx, W))
    if g['kind'] == 'scatter':
        lines.append('  static const unsigned char v_b[] = {%s};' % hexbytes(ib['v']))
        lines.append('  %s v_real; static_assert(sizeof(v_real) == sizeof(v_b), "value vector size"); std::memcpy(&v_real, v_b, sizeof v_real);' % cxx_type(g['vt'], S))
    lines.append('  const std::uint32_t n_in = %du; const std::uint32_t cnt = n_in < %du ? n_in : %du;' % (n_value, W, W))
    lines.append('  for (std::uint32_t i = 0; i < cnt; i++) if (idx[i] < 0 || (std::uint64_t)idx[i] >= len) { std::printf("REPLAY: counterexample outside the pre-condition (index %lld, %llu elements)\\n", (long long)idx[i], (unsigned long long)len); return 0; }')
    lines.append('  for (int placement = 0; placement < 2; placement++) {')
    lines.append('    const std::size_t bytes = len * sizeof(%s); const std::size_t span = (bytes + pg - 1) / pg * pg + pg;' % cxxe)
    lines.append('    unsigned char* region = (unsigned char*)mmap(0, span + 2 * pg, PROT_NONE, MAP_PRIVATE | MAP_ANONYMOUS | MAP_NORESERVE, -1, 0);')
    lines.append('    if (region == (unsigned char*)MAP_FAILED) { std::printf("REPLAY-SKIPPED: cannot reserve %llu bytes of address space\\n", (unsigned long long)span); return 3; }')
    lines.append('    mprotect(region + pg, span, PROT_READ | PROT_WRITE);')
    lines.append('    unsigned char* base = placement == 0 ? region + pg + span - bytes : region + pg;      // the object ends (placement 0) / starts (placement 1) at an inaccessible page')
    lines.append('    %s* p = (%s*)base;' % (cxxe, cxxe))
    lines.append('    if (!far_object) std::memcpy(base, init_b, bytes);')
    if g['kind'] == 'gather':
        lines.append('    else for (std::uint32_t i = 0; i < cnt; i++) std::memset((unsigned char*)&p[idx[i]], 0xA1 + 7 * (int)i, sizeof(%s));' % cxxe)
        lines.append('    unsigned char want[%d][sizeof(%s)]; std::memset(want, 0, sizeof want);' % (W, cxxe))
        lines.append('    for (std::uint32_t i = 0; i < cnt; i++) std::memcpy(want[i], &p[idx[i]], sizeof(%s));' % cxxe)
    else:
        lines.append('    unsigned char vl[%d][sizeof(%s)]; static_assert(sizeof(vl) == sizeof(v_b), "value lanes"); std::memcpy(vl, v_b, sizeof vl);' % (W, cxxe))
        # far object: its contents are arbitrary in the proof; make every addressed element differ from the value it is to receive
        lines.append('    if (far_object) for (std::uint32_t i = 0; i < cnt; i++) for (std::size_t b = 0; b < sizeof(%s); b++) ((unsigned char*)&p[idx[i]])[b] = (unsigned char)~vl[i][b];' % cxxe)
    call = g['call'].replace('{0}', 'p').replace('{1}', 'idx_real' if g['kind'] == 'gather' else 'v_real')
    call = call.replace('{2}', 'n_in' if g['kind'] == 'gather' else 'idx_real').replace('{3}', 'n_in')
    lines.append('    if (sigsetjmp(jb, 1) == 0) {')
    if g['kind'] == 'gather':
        lines.append('      auto ret_real = %s;' % call)
        lines.append('      unsigned char got[%d][sizeof(%s)]; static_assert(sizeof(got) == sizeof(ret_real), "result lanes"); std::memcpy(got, &ret_real, sizeof got);' % (W, cxxe))
        lines.append('      for (int i = 0; i < %d; i++) if (std::memcmp(got[i], want[i], sizeof(%s)) != 0) { std::printf("ENSURES FAILED: gather lane %%d is not %%s\\n", i, (std::uint32_t)i < cnt ? "the addressed element" : "zero (inactive lane)"); fails++; }' % (W, cxxe))
    else:
        lines.append('      %s;' % call)
        lines.append('      for (std::uint32_t i = 0; i < cnt; i++) if (std::memcmp(&p[idx[i]], vl[i], sizeof(%s)) != 0) { std::printf("ENSURES FAILED: scatter element of lane %%u does not hold the lane\'s value\\n", i); fails++; }' % cxxe)
        lines.append('      if (!far_object) for (std::size_t j = 0; j < len; j++) { bool hit = false; for (std::uint32_t i = 0; i < cnt; i++) hit = hit || (std::uint64_t)idx[i] == j;')
        lines.append('        if (!hit && std::memcmp(&p[j], init_b + j * sizeof(%s), sizeof(%s)) != 0) { std::printf("ENSURES FAILED: scatter changed element %%llu, which no active lane addresses\\n", (unsigned long long)j); fails++; } }' % (cxxe, cxxe))
    lines.append('    } else { std::printf("FAULT: the call touched memory outside the object (%llu elements %s an inaccessible page)\\n", (unsigned long long)len, placement == 0 ? "ending at" : "starting at"); fails++; }')
    lines.append('    munmap(region, span + 2 * pg);')
    lines.append('  }')
    lines.append('  std::printf(fails ? "REPLAY: property violated on the real code (%d)\\n" : "REPLAY: real code satisfies the contract on this input\\n", fails);')
    lines.append('  return fails ? 1 : 0;')
    lines.append('}')
    return '\n'.join(lines) + '\n'


def old_subst_mem(expr, pn, ect):
    """__CPROVER_old(p[i]) -> the byte image saved before the call"""
    cxxe = families.CXX_ELEM[families.CT2ELEM[ect]]
    return re.sub(r'__CPROVER_old\(%s\[(\d+)\]\)' % re.escape(pn), lambda m: '(((%s*)(before + pg + (base - (region + pg))))[%s])' % (cxxe, m.group(1)), expr)


def build_and_run(program, cfg, workdir, ubsan=True, levels=('-O1',)):
    os.makedirs(workdir, exist_ok=True)
    src = os.path.join(workdir, 'replay.cpp')
    exe = os.path.join(workdir, 'replay')
    open(src, 'w').write(program)
    flags = [f for f in P.cfg_flags(cfg)]
    outs = []
    built = 0
    # two builds of the same program: g++ -O1 (AVEL's primary compiler; value-level effects of UB show up here) and
    # clang++ -O1 (its UBSan sees promoted-operand overflows that GCC folds away before instrumenting)
    # (memory-footprint replays of gather / scatter add -O0 builds: a read whose value is then masked away is dead code to the
    # optimiser, but it is an access of the abstract machine all the same, and the property speaks about accesses)
    for cc, lvl in [(c, l) for l in levels for c in ('g++', 'clang++')]:
        cmd = [cc] + flags + [lvl, '-g', '-D_Bool=bool', '-I' + os.path.join(P.REPO, 'include'), '-I' + os.path.join(P.ROOT, 'models'),
                              '-I' + os.path.join(P.ROOT, 'spec'), '-Wno-attributes', '-fno-strict-aliasing', '-w']
        if ubsan:
            cmd += ['-fsanitize=undefined']
        cmd += [src, '-o', exe]
        r = subprocess.run(cmd, capture_output=True, text=True, timeout=600)
        if r.returncode != 0:
            outs.append('[%s build failed]\n%s' % (cc, (r.stderr or r.stdout)[-1500:]))
            continue
        built += 1
        try:
            r = subprocess.run([exe], capture_output=True, text=True, timeout=60)
        except subprocess.TimeoutExpired:
            return {'status': 'confirmed', 'output': '[%s] replay did not terminate within 60 s (hang)' % cc, 'exit': None}
        out = (r.stdout + r.stderr)[-3000:]
        outs.append('[%s %s%s]\n%s' % (cc, lvl, ' -fsanitize=undefined' if ubsan else '', out))
        # UB reports count only when they are located in AVEL's own headers (not in the generated harness)
        ub = [l for l in out.splitlines() if 'runtime error' in l and '/include/avel/' in l]
        if r.returncode != 0 or ub:
            return {'status': 'confirmed', 'output': '\n'.join(outs), 'exit': r.returncode}
    if not built:
        return {'status': 'build-failed', 'output': '\n'.join(outs)}
    return {'status': 'not-reproduced', 'output': '\n'.join(outs), 'exit': 0}


def match_known(ob, known):
    """a failing obligation matches an open finding when function family / element types / configuration agree and
    every failing obligation is one the finding lists"""
    fp = [p for p in ob.result['props'] if p['status'] != 'SUCCESS']
    for k in known:
        if k.get('family') and k['family'] != ob.contract.family:
            continue
        if k.get('family_regex') and not re.search(k['family_regex'], ob.contract.family):
            continue
        if k.get('function_regex') and not re.search(k['function_regex'], ob.ident()):
            continue
        if k.get('configurations') and not set(ob.cfgs) <= set(k['configurations']):
            continue
        pats = k.get('obligation_regex') or []
        ok = all(any(re.search(pt, (p.get('name') or '') + ' ' + (p.get('desc') or '')) for pt in pats) for p in fp)
        if not ok:
            continue
        # the failing input must lie inside the finding's input predicate (checked by the residual obligation, see props.py)
        return k
    return None


def residual_requires(ob, k):
    """C expression excluding the finding's input region for this function instantiation, or None when the region
    covers the whole domain (e.g. store<N> with N < W).  Placeholders: {pI} parameter I, {tI} template argument I, {W}."""
    fn = ob.fn
    if k.get('residual_lane'):
        # per-lane region: {x}, {y} are the bit patterns of lane i of parameters 0 and 1, {fx}, {fy} the float values
        S = ob.result.get('_structs') or {}
        import pipeline as _P
        db = _P.load_db(ob.cfgs[0])
        c = families.Ctx(fn, db)
        t = c.PT[0]
        parts = []
        for i in range(t.W or 1):
            ctx = {'x': t.lane(c.a(0), i), 'fx': t.flane(c.a(0), i) if t.isfloat else ''}
            if len(c.P) > 1 and c.PT[1].elem:
                t1 = c.PT[1]
                ctx['y'] = t1.lane(c.a(1), i)
                ctx['fy'] = t1.flane(c.a(1), i) if t1.isfloat else ''
                ctx['sy'] = 'spec_sx(%s, %d)' % (t1.lane(c.a(1), i), t1.bits)
            ctx['B'] = '32' if t.bits == 32 else '64'
            parts.append('(' + k['residual_lane'].format(**ctx) + ')')
        return ' && '.join(parts)
    tmpl = k.get('residual_requires')
    if not tmpl:
        return None
    t = None
    for p in fn['params']:
        tt = families.T(p['ctype'].rstrip('*'), {})
        m = re.match(r'^(Vec|Mask)_(\w+?)_(\d+)$', p['ctype'].rstrip('*'))
        if m:
            t = int(m.group(3))
            break
    ctx = {'W': t if t is not None else 0}
    for i, p in enumerate(fn['params']):
        ctx['p%d' % i] = p['name']
    ctx['plast'] = fn['params'][-1]['name'] if fn['params'] else ''
    for i, ta in enumerate(fn.get('targs', [])):
        ctx['t%d' % i] = ta
    variant = 'n' if any(p['ctype'] == 'uint32_t' for p in fn['params'][-1:]) else 'N'
    e = tmpl.get(variant) if isinstance(tmpl, dict) else tmpl
    if e is None:
        return None
    try:
        e = e.format(**ctx)
    except (KeyError, IndexError):
        return None
    if re.match(r'^[\d\s<>=!u()&|]+$', e):
        val = eval(e.replace('u', '').replace('&&', ' and ').replace('||', ' or '))
        return None if not val else '1'
    return e


def record_and_replay(prop, ob, db, sc, do_replay=True):
    d = os.path.join(os.environ.get('VERIF_REPLAYS') or os.path.join(P.ROOT, 'replays'), prop)
    os.makedirs(d, exist_ok=True)
    tag = hashlib.sha256(ob.cname.encode()).hexdigest()[:8]
    path = os.path.join(d, '%s_%s__%s.json' % (re.sub(r'\W', '_', ob.fn['name'])[:30], tag, ob.cfgs[0]))
    fp = [p for p in ob.result['props'] if p['status'] != 'SUCCESS']
    S = db['structs']
    rec = {'property': prop, 'function': ob.ident(), 'cname': ob.cname, 'source': '%s:%s' % (ob.fn.get('file'), ob.fn.get('line')),
           'configurations': ob.cfgs, 'configuration_replayed': ob.cfgs[0],
           'failed_obligations': [{'name': p['name'], 'description': p['desc'], 'cbmc_trace_tail': p.get('trace_tail')} for p in fp],
           'contract': ob.contract.clauses()}
    inputs = None
    for p in fp:
        if p.get('inputs'):
            inputs = p['inputs']
            break
    status = 'no-input'
    if getattr(ob.contract, 'prefetch', None):
        # prefetch hints: no value to compare -- the real function is called on a null pointer, a misaligned invalid
        # address and an inaccessible page (at every offset class the counterexample could mean) with the counterexample's
        # count; a signal or a call that does not return confirms
        pf = ob.contract.prefetch
        nv = ((inputs or {}).get('n_in', {}) or {}).get('n_in', {}) or {}
        n_value = int(nv['bin'], 2) if nv.get('bin') else 0
        rec['n'] = n_value
        tpl = '<avel::Cache_level(%d)%s>' % (pf['level'], (', ' + pf['elem']) if pf['elem'] else '')
        pt = ('const %s*' % pf['elem']) if pf['elem'] else 'const void*'
        prog = '\n'.join([
            '// generated replay (prefetch): real AVEL code, counts from the counterexample and around it',
            '#include <avel/Avel.hpp>', '#include <cstdio>', '#include <csignal>', '#include <cstdlib>', '#include <unistd.h>', '#include <sys/mman.h>',
            'static const char* what = "";', 'static unsigned long long cur_n = 0;',
            'static void on_sig(int s) { std::printf("%s on prefetch with %s, n = %llu\\n", s == SIGALRM ? "NO RETURN within 5 s (hang)" : "SIGNAL", what, cur_n); std::fflush(stdout); std::_Exit(1); }',
            'int main() {',
            '  std::signal(SIGSEGV, on_sig); std::signal(SIGBUS, on_sig); std::signal(SIGALRM, on_sig);',
            '  const long pg = sysconf(_SC_PAGESIZE);',
            '  unsigned char* region = (unsigned char*)mmap(0, 3 * pg, PROT_NONE, MAP_PRIVATE | MAP_ANONYMOUS, -1, 0);',
            '  static unsigned char buf[8192];',
            '  struct { const void* p; const char* w; } ptrs[] = {{nullptr, "a null pointer"}, {(const void*)0x1008, "a misaligned invalid address"}, {region + pg, "the start of an inaccessible page"},',
            '     {region + pg + 8, "an offset inside an inaccessible page"}, {buf + 64 - ((unsigned long long)buf % 64), "a cache-line aligned valid buffer"}, {buf + 8, "a valid buffer"}};',
            '  const unsigned long long ns[] = {%dull, 0ull, 1ull, 63ull, 64ull, 65ull, 256ull};' % n_value,
            '  for (auto& pp : ptrs) for (unsigned long long n : ns) { what = pp.w; cur_n = n; alarm(5); avel::%s%s((%s)pp.p, (std::size_t)n); alarm(0); }' % (pf['name'], tpl, pt),
            '  std::printf("REPLAY: real code satisfies the contract on this input\\n"); return 0;', '}']) + '\n'
        rec['program'] = prog
        res = build_and_run(prog, ob.cfgs[0], sc.path('replay-' + tag), ubsan=False) if do_replay else {'status': 'not-executed', 'output': 'not executed in the run that recorded it (replay cap reached): run `python3 run.py --replay <this file>`'}
        rec['replay'] = res
        status = res['status']
    elif inputs is not None and getattr(ob.contract, 'gs', None):
        try:
            g = ob.contract.gs
            fn = ob.fn
            ib = {}
            ivar, vvar = ('a1', None) if g['kind'] == 'gather' else ('a2', 'a1')
            ib['idx'] = merge_assignments(ivar, inputs.get(ivar, {}), g['it'], S)
            if vvar:
                ib['v'] = merge_assignments(vvar, inputs.get(vvar, {}), g['vt'], S)
            if not g['far']:
                ib['init'] = to_bytes(inputs.get('init', {}).get('init'), '%s[%d]' % (g['elem'], g['W'] + 1), S)
            nv = inputs.get('n_in', {}).get('n_in', {})
            n_value = int(nv.get('bin'), 2) if nv and nv.get('bin') else 0
            if g.get('N') is not None:
                n_value = g['N']
            lv = inputs.get('len_in', {}).get('len_in', {})
            len_value = int(lv.get('bin'), 2) if lv and lv.get('bin') else g['W'] + 1
            rec['inputs_hex'] = {k: v.hex() for k, v in ib.items()}
            rec['n'] = n_value
            rec['object_elements'] = len_value
            prog = gen_gs_program(fn, ob.contract, db, ib, n_value, len_value)
            rec['program'] = prog
            res = build_and_run(prog, ob.cfgs[0], sc.path('replay-' + tag), ubsan=False, levels=('-O1', '-O0')) if do_replay else {'status': 'not-executed', 'output': 'not executed in the run that recorded it (replay cap reached): run `python3 run.py --replay <this file>`'}
            rec['replay'] = res
            status = res['status']
        except (ValueError, KeyError, TypeError) as e:
            rec['replay'] = {'status': 'generator-error', 'output': str(e)}
            status = 'no-input'
    elif inputs is not None and ob.contract.cxx:
        try:
            ib = {}
            fn = ob.fn
            if fn['kind'] in ('method', 'conv') and not fn.get('static') and 'self_obj' in inputs:
                ib['self_obj'] = merge_assignments('self_obj', inputs['self_obj'], fn['owner'], S)
            for i, prm in enumerate(fn['params']):
                var = 'a%d_obj' % i if prm['ref'] else 'a%d' % i
                ct = prm['ctype'][:-1] if prm['ref'] else prm['ctype']
                if var in inputs:
                    ib[var] = merge_assignments(var, inputs[var], ct, S)
            rec['inputs_hex'] = {k: v.hex() for k, v in ib.items()}
            rmv = (inputs.get('rm_in', {}) or {}).get('rm_in', {}) or {}
            rm = int(rmv['bin'], 2) if rmv.get('bin') else None
            rec['rounding_mode'] = rm
            if getattr(ob.contract, 'mem', None):
                ini = inputs.get('init', {}).get('init')
                ect = ob.contract.mem['elem']
                ib['init'] = to_bytes(ini, '%s[%d]' % (ect, ob.contract.mem['W']), S)
                if 'a1' in inputs:
                    ib['a1'] = merge_assignments('a1', inputs['a1'], fn['params'][1]['ctype'], S)
                nv = inputs.get('n_in', {}).get('n_in', {})
                n_value = int(nv.get('bin'), 2) if nv and nv.get('bin') else 0
                rec['inputs_hex'] = {k: v.hex() for k, v in ib.items()}
                rec['n'] = n_value
                mv = inputs.get('mis_in', {}).get('mis_in', {})
                mis = int(mv.get('bin'), 2) if mv and mv.get('bin') else 0
                rec['misalign'] = mis
                prog = gen_mem_program(fn, ob.contract, db, ib, n_value, mis)
            else:
                prog = gen_program(fn, ob.contract, db, ib, rm)
            rec['program'] = prog
            if do_replay:
                res = build_and_run(prog, ob.cfgs[0], sc.path('replay-' + tag))
            else:
                res = {'status': 'not-executed', 'output': 'not executed in the run that recorded it (replay cap reached): run `python3 run.py --replay <this file>`'}
            rec['replay'] = res
            status = res['status']
            if status == 'not-reproduced' and do_replay and getattr(ob.contract, 'replay_lattice', None) and not getattr(ob.contract, 'mem', None):
                # the failed obligation involves an operation the proof treats as uninterpreted (e.g. the IEEE square root under
                # a rounding mode): the solver's operand need not be one on which the real FPU shows the difference.  Try the
                # family's small lattice of operands under every rounding mode; a real failing input confirms.
                import struct
                for rm2 in (2, 1, 3, 0):
                    for val in ob.contract.replay_lattice:
                        ib2 = dict(ib)
                        for i, prm in enumerate(fn['params']):
                            var = 'a%d_obj' % i if prm['ref'] else 'a%d' % i
                            ct = prm['ctype'][:-1] if prm['ref'] else prm['ctype']
                            tt = families.T(ct, S)
                            if tt.elem and tt.isfloat and var in ib2:
                                one = struct.pack('<f' if tt.bits == 32 else '<d', val)
                                ib2[var] = one * (len(ib2[var]) // len(one))
                        if fn['kind'] in ('method', 'conv') and 'self_obj' in ib2:
                            tt = families.T(fn['owner'], S)
                            if tt.elem and tt.isfloat:
                                one = struct.pack('<f' if tt.bits == 32 else '<d', val)
                                ib2['self_obj'] = one * (len(ib2['self_obj']) // len(one))
                        prog2 = gen_program(fn, ob.contract, db, ib2, rm2)
                        res2 = build_and_run(prog2, ob.cfgs[0], sc.path('replay-' + tag + '-l'))
                        if res2['status'] == 'confirmed':
                            rec['inputs_hex'] = {k: v.hex() for k, v in ib2.items()}
                            rec['rounding_mode'] = rm2
                            rec['program'] = prog2
                            rec['replay'] = res2
                            rec['replay_note'] = 'the solver\'s own operand did not show the difference on the real FPU (uninterpreted operation); confirmed on the family\'s operand lattice instead'
                            status = 'confirmed'
                            break
                    if status == 'confirmed':
                        break
        except (ValueError, KeyError) as e:
            rec['replay'] = {'status': 'generator-error', 'output': str(e)}
            status = 'no-input'
    rec['status'] = status
    json.dump(rec, open(path, 'w'), indent=1)
    if status == 'build-failed':
        status = 'no-input'
    return {'status': status, 'path': path}


def replay_file(path):
    rec = json.load(open(path))
    print('property %s  function %s  configuration %s' % (rec['property'], rec['function'], rec.get('configuration_replayed')))
    for f in rec['failed_obligations']:
        print('failed obligation: %s -- %s' % (f['name'], f['description']))
    if 'program' not in rec:
        print('no failing input was extracted for this violation; verifier output:')
        for f in rec['failed_obligations']:
            for l in (f.get('cbmc_trace_tail') or [])[-15:]:
                print('   ', l)
        return 1
    sc = P.Scratch('replay')
    try:
        res = build_and_run(rec['program'], rec['configuration_replayed'], sc.path('r'))
        print(res['output'])
        print('replay status: ' + res['status'])
        return 1 if res['status'] == 'confirmed' else (2 if res['status'] == 'build-failed' else 0)
    finally:
        sc.cleanup()
