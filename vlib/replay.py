"""replay.py -- counterexample -> replay against the real C++ code (stub; filled in below)."""
import os, json
import pipeline as P

def match_known(ob, known):
    return None

def record_and_replay(prop, ob, db, sc):
    d = os.path.join(P.ROOT, 'replays', prop)
    os.makedirs(d, exist_ok=True)
    path = os.path.join(d, '%s__%s.json' % (ob.cname[:80], ob.cfgs[0]))
    fp = [p for p in ob.result['props'] if p['status'] != 'SUCCESS']
    json.dump({'property': prop, 'function': ob.ident(), 'cname': ob.cname, 'configurations': ob.cfgs,
               'failed_obligations': [{'name': p['name'], 'desc': p['desc'], 'inputs': p.get('inputs'), 'trace_tail': p.get('trace_tail')} for p in fp]},
              open(path, 'w'), indent=1)
    return {'status': 'unreplayed', 'path': path}

def replay_file(path):
    print(open(path).read())
    return 0
