"""pipeline.py -- extraction cache, obligation generation, CBMC discharge, result parsing."""
import os, sys, re, json, time, hashlib, pickle, subprocess, shutil, tempfile, signal
from concurrent.futures import ProcessPoolExecutor, ThreadPoolExecutor, as_completed

ROOT = os.path.dirname(os.path.dirname(os.path.abspath(__file__)))
REPO = os.environ.get('AVEL_REPO', '/repo')
sys.path.insert(0, os.path.join(ROOT, 'extract'))
sys.path.insert(0, os.path.join(ROOT, 'contracts'))
CACHE = os.environ.get('VERIF_CACHE') or os.path.join(ROOT, '.cache')
NPROC = int(os.environ.get('VERIF_JOBS', os.cpu_count() or 8))
BIGMEM_JOBS = int(os.environ.get('VERIF_BIGMEM_JOBS', '2'))
RETRY_JOBS = int(os.environ.get('VERIF_RETRY_JOBS', '3'))
MIDMEM_JOBS = int(os.environ.get('VERIF_MIDMEM_JOBS', '6'))

sys.path.insert(0, os.path.join(ROOT, 'models'))
import cxx2c, tu, families, gen_x86

CONFIGS = json.load(open(os.path.join(ROOT, 'configs.json')))


# ------------------------------------------------------------------------------------------------
# scratch
# ------------------------------------------------------------------------------------------------
class Scratch:
    def __init__(self, tag):
        base = os.environ.get('VERIF_SCRATCH') or os.path.join(os.path.expanduser('~'), '.avel-verif-scratch')
        os.makedirs(base, exist_ok=True)
        self.dir = tempfile.mkdtemp(prefix=tag + '-', dir=base)

    def path(self, *a):
        return os.path.join(self.dir, *a)

    def cleanup(self):
        shutil.rmtree(self.dir, ignore_errors=True)


# ------------------------------------------------------------------------------------------------
# extraction (cached by content hash of everything it depends on)
# ------------------------------------------------------------------------------------------------
def tree_hash():
    h = hashlib.sha256()
    inc = os.path.join(REPO, 'include')
    for dp, dn, fn in sorted(os.walk(inc)):
        dn.sort()
        for f in sorted(fn):
            p = os.path.join(dp, f)
            h.update(p.encode())
            h.update(open(p, 'rb').read())
    for p in (os.path.join(ROOT, 'extract', 'cxx2c.py'), os.path.join(ROOT, 'drivers', 'instantiate.cpp'),
              os.path.join(ROOT, 'configs.json')):
        h.update(open(p, 'rb').read())
    return h.hexdigest()[:20]


def cfg_flags(cfg):
    c = CONFIGS[cfg]
    return ['-std=' + c.get('std', 'c++11')] + c.get('flags', []) + ['-D' + d for d in c.get('defines', [])]


def extract_config(cfg, th=None, scratch_base=None):
    """returns path of the pickled function database for configuration cfg"""
    th = th or tree_hash()
    os.makedirs(os.path.join(CACHE, 'db'), exist_ok=True)
    out = os.path.join(CACHE, 'db', '%s-%s.pkl' % (cfg, th))
    if os.path.exists(out):
        return out, True
    sc = Scratch('extract-' + cfg)
    try:
        js = sc.path('ast.json')
        cmd = ['clang++'] + cfg_flags(cfg) + ['-I' + os.path.join(REPO, 'include'), '-DAVEL_VERIF_EXTRACT', '-fsyntax-only',
               '-Wno-everything', '-Xclang', '-ast-dump=json', '-Xclang', '-ast-dump-filter=avel',
               os.path.join(ROOT, 'drivers', 'instantiate.cpp')]
        with open(js, 'w') as f:
            r = subprocess.run(cmd, stdout=f, stderr=subprocess.PIPE, text=True)
        if r.returncode != 0:
            raise RuntimeError('clang failed for configuration %s:\n%s' % (cfg, r.stderr[-3000:]))
        em = cxx2c.Emitter(cxx2c.load_docs(js))
        db = em.emit_all()
        db['config'] = cfg
        db['tree_hash'] = th
        tmp = out + '.tmp%d' % os.getpid()
        with open(tmp, 'wb') as f:
            pickle.dump(db, f)
        os.replace(tmp, out)
        # drop stale caches of the same configuration
        for fn in os.listdir(os.path.join(CACHE, 'db')):
            if fn.startswith(cfg + '-') and fn != os.path.basename(out) and fn.endswith('.pkl'):
                try:
                    os.remove(os.path.join(CACHE, 'db', fn))
                except OSError:
                    pass
    finally:
        sc.cleanup()
    return out, False


def load_db(cfg, th=None):
    p, hit = extract_config(cfg, th)
    with open(p, 'rb') as f:
        db = pickle.load(f)
    db['cache_hit'] = hit
    return db


def extract_many(cfgs, jobs=None):
    th = tree_hash()
    res = {}
    with ProcessPoolExecutor(max_workers=min(len(cfgs), jobs or 6)) as ex:
        futs = {ex.submit(extract_config, c, th): c for c in cfgs}
        for f in as_completed(futs):
            res[futs[f]] = f.result()
    return res


# ------------------------------------------------------------------------------------------------
# harness generation
# ------------------------------------------------------------------------------------------------
def harness_for(fn, contract, prop=None):
    lines = ['int main(void) {', '  avel_static_init();', '  avm_mem_obj = 0; avm_mem_mod = 0;']
    args = []
    h = getattr(contract, 'harness', None)
    if prop == 'C08' and getattr(contract, 'harness_C08', None):
        # value obligations only: the object is the whole vector-sized block; the exact footprint is C09's check
        h = contract.harness_C08
    if h:
        for l in h['pre']:
            lines.append('  ' + l)
        lines.append('  %s(%s);' % (fn['cname'], ', '.join(h['args'])))
        lines.append('  return 0;')
        lines.append('}')
        return '\n'.join(lines) + '\n'
    if fn['kind'] in ('method', 'conv') and not fn.get('static'):
        lines.append('  %s self_obj;' % fn['owner'])
        for s in contract.setup:
            pass
        args.append('&self_obj')
    for i, p in enumerate(fn['params']):
        ct = p['ctype']
        if p['ref']:
            base = ct[:-1]
            lines.append('  %s;' % cxx2c.Emitter.decl(base, 'a%d_obj' % i))
            args.append('&a%d_obj' % i)
        else:
            lines.append('  %s;' % cxx2c.Emitter.decl(ct, 'a%d' % i))
            args.append('a%d' % i)
    for s in contract.setup:
        lines.append('  ' + s)
    lines.append('  %s(%s);' % (fn['cname'], ', '.join(args)))
    lines.append('  return 0;')
    lines.append('}')
    return '\n'.join(lines) + '\n'


# ------------------------------------------------------------------------------------------------
# one obligation = one function under contract, one distinct TU text
# ------------------------------------------------------------------------------------------------
class Obligation:
    def __init__(self, prop, cfg, fn, contract, text, externs, replace):
        self.prop = prop
        self.cfgs = [cfg]
        self.fn = fn
        self.cname = fn['cname']
        self.contract = contract
        self.text = text
        self.externs = externs
        self.replace = sorted(replace)
        self.defines = list(getattr(contract, 'defines', []) or [])
        self.key = hashlib.sha256((text + '|' + ' '.join(self.replace) + '|' + ' '.join(self.defines)).encode()).hexdigest()[:24]
        self.result = None

    def ident(self):
        part = getattr(self.contract, 'part', None)
        return '%s %s(%s) [%s]%s' % (self.contract.family, self.fn['name'], ', '.join(p['ctype'] for p in self.fn['params']),
                                     self.fn.get('owner') or '-', '' if part is None else ' part %s' % part)


SPEC_INCLUDES = ['spec_int.h', 'spec_float.h']
MODEL_INCLUDES = ['avm_base.h', 'avm_models.h']


def build_obligation(prop, cfg, db, fn, contract, replace_contracts=None):
    replace_contracts = replace_contracts or {}
    contracts = {fn['cname']: {'clauses': contract.clauses(), 'loops': contract.loops}}
    for cn, c in replace_contracts.items():
        contracts[cn] = {'clauses': c.clauses()}
    text, externs, missing = tu.assemble(db, fn['cname'], contracts, replace=set(replace_contracts), harness=harness_for(fn, contract, prop),
                                         includes=MODEL_INCLUDES, spec_includes=SPEC_INCLUDES, model_text=model_text,
                                         extra_roots=getattr(contract, 'extra_roots', ()), ghosts=getattr(contract, 'ghosts', ()))
    ob = Obligation(prop, cfg, fn, contract, text, externs, set(replace_contracts))
    ob.repl_contracts = replace_contracts
    ob.missing_models = missing
    return ob


LIBM_BUILTIN = ('__builtin_inff', '__builtin_inf', '__builtin_nanf', '__builtin_nan', '__builtin_prefetch', '_mm_malloc', '_mm_free')


def model_text(names):
    return gen_x86.text_for([n for n in names if n not in LIBM_BUILTIN])


def _run(cmd, cwd, timeout, env=None, mem_gb=8):
    def pre():
        import resource
        os.setsid()
        lim = mem_gb * 1024 ** 3
        resource.setrlimit(resource.RLIMIT_AS, (lim, lim))
    t0 = time.time()
    try:
        p = subprocess.Popen(cmd, cwd=cwd, stdout=subprocess.PIPE, stderr=subprocess.PIPE, text=True, env=env, preexec_fn=pre)
        try:
            out, err = p.communicate(timeout=timeout)
        except subprocess.TimeoutExpired:
            try:
                os.killpg(p.pid, signal.SIGKILL)
            except OSError:
                pass
            p.communicate()
            return None, '', 'timeout', time.time() - t0
        return p.returncode, out, err, time.time() - t0
    except OSError as e:
        return -1, '', str(e), time.time() - t0


def parse_cbmc_json(out):
    try:
        data = json.loads(out)
    except ValueError:
        return None
    res = {'props': [], 'status': None, 'messages': []}
    for item in data:
        if 'result' in item:
            for r in item['result']:
                pr = {'name': r.get('property'), 'desc': r.get('description'), 'status': r.get('status'),
                      'loc': r.get('sourceLocation', {})}
                if r.get('status') == 'FAILURE' and 'trace' in r:
                    pr['trace'] = r['trace']
                res['props'].append(pr)
        if 'cProverStatus' in item:
            res['status'] = item['cProverStatus']
        if item.get('messageType') in ('ERROR', 'WARNING') and 'messageText' in item:
            res['messages'].append(item['messageText'])
    return res


def discharge(ob_text, cname, replace, workdir, flags, timeout_fast, timeout_slow, loops=False, unwind=None, defines=(), extra_cbmc=()):
    """run goto-cc / goto-instrument / cbmc on one TU.  returns dict"""
    os.makedirs(workdir, exist_ok=True)
    src = os.path.join(workdir, 'tu.c')
    with open(src, 'w') as f:
        f.write(ob_text)
    env = dict(os.environ)
    env['TMPDIR'] = workdir
    res = {'verdict': 'undecided', 'reason': None, 'props': [], 'solver_s': 0.0, 'backend': None, 'n_props': 0}
    rc, out, err, dt = _run(['goto-cc', '-DAVM_CBMC'] + ['-D' + d for d in defines] + [ '-I' + os.path.join(ROOT, 'models'), '-I' + os.path.join(ROOT, 'spec'),
                             src, '-o', os.path.join(workdir, 'a.gb')], workdir, 120, env)
    if rc != 0:
        res['reason'] = 'goto-cc failed: ' + (err or out)[-1500:]
        return res
    cmd = ['goto-instrument', '--dfcc', 'main', '--enforce-contract', cname]
    for r in replace:
        cmd += ['--replace-call-with-contract', r]
    if loops:
        cmd += ['--apply-loop-contracts']
    cmd += [os.path.join(workdir, 'a.gb'), os.path.join(workdir, 'b.gb')]
    rc, out, err, dt = _run(cmd, workdir, 300, env)
    if rc != 0:
        res['reason'] = 'goto-instrument failed: ' + (err or out)[-1500:]
        return res
    base = ['cbmc', os.path.join(workdir, 'b.gb'), '--json-ui', '--trace', '--object-bits', '12']
    if unwind:
        # width-bounded loops of the extracted code only (a global --unwind would also cap the loops of DFCC's own
        # write-set library and make its checks fail): every loop of an extracted function gets the bound, and the
        # unwinding assertions make the result complete rather than bounded
        rc, out, err, dt = _run(['cbmc', '--show-loops', os.path.join(workdir, 'b.gb')], workdir, 120, env)
        ids = re.findall(r'^Loop (F_Z[^\s:]+\.\d+):', out or '', flags=re.M)
        if not ids:
            res['reason'] = 'no loop of an extracted function found to unwind'
            return res
        base += ['--unwindset', ','.join('%s:%d' % (i, unwind) for i in ids), '--unwinding-assertions']
    base += list(extra_cbmc)
    # cadical (linked into cbmc, no CNF file) is the deciding back end; kissat is the fall-back for slow queries.
    # minisat is not used: it cannot match even identical multiplier circuits through SSA copies.
    attempts = [('cadical', ['--sat-solver', 'cadical'], timeout_fast if ('mul' not in flags and 'div' not in flags) else timeout_slow)]
    if 'mul' not in flags and 'div' not in flags:
        attempts.append(('kissat', ['--external-sat-solver', 'kissat'], timeout_slow))
    for name, extra, to in attempts:
        rc, out, err, dt = _run(base + extra, workdir, to, env, mem_gb=(24 if unwind else 12))
        res['solver_s'] += dt
        if rc is None:
            res['reason'] = 'timeout (%s, %ds)' % (name, to)
            continue
        pj = parse_cbmc_json(out)
        if pj is None or pj['status'] not in ('success', 'failure'):
            # includes cProverStatus "error" (solver out of memory, conversion errors): never a verdict
            msg = '; '.join(m for m in (pj or {}).get('messages', []) if m)[-600:] if pj else ''
            res['reason'] = 'cbmc error (%s): %s' % (name, msg or (err or out)[-1500:])
            # conversion / parse errors do not improve with another solver
            break
        res['backend'] = name
        res['props'] = pj['props']
        res['n_props'] = len(pj['props'])
        res['messages'] = pj['messages']
        failed = [p for p in pj['props'] if p['status'] != 'SUCCESS']
        res['verdict'] = 'pass' if (pj['status'] == 'success' and not failed) else 'fail'
        res['reason'] = None
        break
    for fn in os.listdir(workdir):
        if fn.endswith('.cnf') or fn.startswith('external-sat'):
            try:
                os.remove(os.path.join(workdir, fn))
            except OSError:
                pass
    return res


def _worker(args):
    key, text, cname, replace, workdir, flags, tf, ts, loops, unwind, defines, extra_cbmc = args
    r = discharge(text, cname, replace, workdir, flags, tf, ts, loops, unwind, defines, extra_cbmc)
    # traces can be large: keep only the failing properties' traces, trimmed to harness-level assignments
    for p in r['props']:
        if 'trace' in p:
            p['inputs'] = extract_inputs(p['trace'], cname)
            p['trace_tail'] = trim_trace(p['trace'])
            del p['trace']
    shutil.rmtree(workdir, ignore_errors=True)
    return key, r


def _val(v):
    if v is None:
        return None
    if 'members' in v:
        return {m['name']: _val(m['value']) for m in v['members']}
    if 'elements' in v:
        return [_val(e['value']) for e in v['elements']]
    if 'binary' in v:
        return {'bin': v['binary'], 'data': v.get('data')}
    return {'data': v.get('data')}


def extract_inputs(trace, root=None):
    """values of the harness variables (a0.., self_obj, rounding mode) at the time of the call"""
    vals = {}
    for st in trace:
        if st.get('stepType') == 'function-call':
            fn = st.get('function', {}).get('displayName', '')
            if (root and root in fn) or (not root and fn.startswith('F_Z')):
                break
        if st.get('stepType') != 'assignment':
            continue
        lhs = st.get('lhs', '')
        if st.get('sourceLocation', {}).get('function') not in ('main', None) and not lhs.startswith('__CPROVER_rounding_mode'):
            continue
        m = re.match(r'^(a\d+(_obj)?|self_obj|rm_in|init|idx_in|len_in|n_in|mis_in)(\W.*)?$', lhs)
        if m:
            vals.setdefault(m.group(1), {})[lhs] = _val(st.get('value'))
    return vals


def trim_trace(trace, n=40):
    out = []
    for st in trace[-n:]:
        if st.get('stepType') == 'assignment':
            v = st.get('value', {})
            out.append('%s = %s  (%s:%s)' % (st.get('lhs'), v.get('data', v.get('name')), st.get('sourceLocation', {}).get('function'),
                                             st.get('sourceLocation', {}).get('line')))
        elif st.get('stepType') == 'failure':
            out.append('FAILURE: %s  %s' % (st.get('property'), st.get('reason')))
    return out


def run_obligations(obs, scratch, tier, progress=True):
    tf = int(os.environ.get('VERIF_TFAST', 30 if tier == 'quick' else 90))
    ts = int(os.environ.get('VERIF_TSLOW', 240 if tier == 'quick' else 1800))
    jobs = []
    for ob in obs:
        c = ob.contract
        wd = scratch.path('ob-' + ob.key)
        jobs.append((ob.key, ob.text, ob.cname, ob.replace, wd, c.flags, tf, ts, bool(c.loops), getattr(c, 'unwind', None), ob.defines, getattr(c, 'cbmc_flags', ())))
    bykey = {ob.key: ob for ob in obs}
    done = 0
    t0 = time.time()
    # obligations with fully unwound loops need 10-20 GB each: they run after the others, at most BIGMEM_JOBS at a time
    big = [j for j in jobs if j[9]]
    # queries known to need several GB each (binary64 ldexp against the exact wide product: 6-7 GB): at most MIDMEM_JOBS at a time
    mid = [j for j in jobs if not j[9] and getattr(bykey[j[0]].contract, 'mem_gb', 0) >= 4]
    small = [j for j in jobs if not j[9] and j not in mid]
    for batch, workers in ((small, NPROC), (mid, min(NPROC, MIDMEM_JOBS)), (big, min(NPROC, BIGMEM_JOBS))):
        if not batch:
            continue
        with ProcessPoolExecutor(max_workers=workers) as ex:
            futs = [ex.submit(_worker, j) for j in batch]
            for f in as_completed(futs):
                key, r = f.result()
                bykey[key].result = r
                done += 1
                if progress and (done % 50 == 0 or done == len(jobs)):
                    print('  [%d/%d obligations, %.0fs]' % (done, len(jobs), time.time() - t0), file=sys.stderr, flush=True)
    # a solver process that died without a parsable result (in practice: the kernel's OOM killer when many multi-gigabyte
    # queries ran side by side) says nothing about the obligation: run those again, a few at a time
    retry = [j for j in jobs if (bykey[j[0]].result or {}).get('verdict') == 'undecided'
             and ((bykey[j[0]].result or {}).get('reason') or '').startswith('cbmc error')]
    if retry:
        if progress:
            print('  [re-running %d obligation(s) whose solver process died, %d at a time]' % (len(retry), min(NPROC, RETRY_JOBS)), file=sys.stderr, flush=True)
        with ProcessPoolExecutor(max_workers=min(NPROC, RETRY_JOBS)) as ex:
            futs = [ex.submit(_worker, j) for j in retry]
            for f in as_completed(futs):
                key, r = f.result()
                r['solver_s'] = r.get('solver_s', 0) + (bykey[key].result or {}).get('solver_s', 0)
                bykey[key].result = r
    return obs
