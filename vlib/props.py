"""props.py -- per-property check: obligations from the contract table, discharge, verdicts, evidence."""
import os, sys, json, time, re, collections, hashlib, copy
import pipeline as P
import families

ROOT = P.ROOT
SEED = int(os.environ.get('VERIF_SEED', '0') or 0)

QUICK_CFGS = ['none', 'scalar-all', 'sse2', 'sse42', 'avx2', 'avx512-all']
ALL_CFGS = list(P.CONFIGS.keys())
# configurations actually enabled (grown as instruction models are completed)
ENABLED = json.load(open(os.path.join(ROOT, 'enabled_configs.json')))


def tier_configs(tier, prop=None):
    cfgs = QUICK_CFGS if tier == 'quick' else ALL_CFGS
    out = [c for c in cfgs if c in ENABLED[tier]]
    # language-level configurations for the two places where the C++ standard selects code (Aligned_allocator, bit_cast)
    for c in ENABLED.get('extra', {}).get(prop, []) if prop else sorted({x for v in ENABLED.get('extra', {}).values() for x in v}):
        if c not in out:
            out.append(c)
    if tier == 'quick':
        # per-property additions to the quick tier (cheap properties run every configuration on every change)
        qx = ENABLED.get('quick_extra', {})
        for c in (qx.get(prop, []) if prop else sorted({x for v in qx.values() for x in v})):
            if c not in out:
                out.append(c)
    return out


def setup():
    t0 = time.time()
    cfgs = sorted(set(tier_configs('quick')))      # includes the extra language-level configurations
    res = P.extract_many(cfgs)
    for c in cfgs:
        print('extracted %-14s %s %s' % (c, res[c][0], '(cached)' if res[c][1] else ''))
    print('setup done in %.0fs' % (time.time() - t0))
    return 0


def load_known():
    p = os.path.join(ROOT, 'known_findings.json')
    if not os.path.exists(p):
        return []
    return json.load(open(p)).get('findings', [])


def quick_sample(fn, c, db):
    """quick tier: compile-time arguments (shift counts, lane indices, element counts) are sampled at the boundaries
    plus one seed-dependent interior value; the thorough tier enumerates all of them"""
    ta = [x for x in fn.get('targs', []) if isinstance(x, int)]
    if not ta or fn['name'] not in ('bit_shift_left', 'bit_shift_right', 'rotl', 'rotr', 'extract', 'insert', 'load', 'aligned_load',
                                    'store', 'aligned_store', 'gather', 'scatter'):
        return True
    v = ta[-1] if fn['name'] in ('load', 'aligned_load', 'gather') else ta[0]
    t = None
    for p in fn['params']:
        tt = families.T(p['ctype'].rstrip('*'), db['structs'])
        if tt.kind in ('vec', 'mask'):
            t = tt
            break
    if t is None and fn.get('ret'):
        tt = families.T(fn['ret'], db['structs'])
        if tt.kind in ('vec', 'mask'):
            t = tt
    if t is None:
        return True
    if fn['name'] in ('bit_shift_left', 'bit_shift_right', 'rotl', 'rotr'):
        hi = t.bits
        keep = {0, 1, hi // 2, hi - 1, hi, hi + 1, 2 * hi - 1, 2 * hi, 0xffffffff, 2 + (SEED * 7 + hi) % max(1, hi - 3)}
    elif fn['name'] in ('extract', 'insert'):
        hi = t.W
        keep = {0, hi - 1, (SEED * 5 + 3) % hi} if hi > 4 else set(range(hi))
    else:
        hi = t.W
        keep = {0, hi, (SEED * 5 + 3) % (hi + 1)} if hi > 2 else set(range(hi + 1))
    return v in keep


def load_exclusions(prop):
    p = os.path.join(ROOT, 'coverage_exclusions.json')
    if not os.path.exists(p):
        return []
    return [e for e in json.load(open(p)).get('exclusions', []) if e['property'] == prop]


def excluded(excl, c, fn, cfg):
    ident = '%s(%s) [%s]' % (fn['name'], ', '.join(p['ctype'] for p in fn['params']), fn.get('owner') or '-')
    for e in excl:
        if e.get('family_regex') and not re.search(e['family_regex'], c.family):
            continue
        if e.get('function_regex') and not re.search(e['function_regex'], ident):
            continue
        if e.get('except_regex') and re.search(e['except_regex'], c.family + ' ' + ident):
            continue
        if e.get('configurations') and cfg not in e['configurations']:
            continue
        return e
    return None


def load_quick_skip(prop):
    p = os.path.join(ROOT, 'quick_skip.json')
    if not os.path.exists(p):
        return []
    return [e for e in json.load(open(p)).get('thorough_only', []) if e['property'] == prop]


NOT_RUN_QUICK = []
NOT_COVERED = []
UNMATCHED = []
SLOWEST = []


def gather(prop, cfgs, only=None, tier='thorough'):
    """-> (obligations deduplicated by TU text, per-config stats, extraction problems)"""
    obs = {}
    stats = {}
    problems = []
    dbs = {}
    excl = load_exclusions(prop)
    del NOT_COVERED[:]
    del UNMATCHED[:]
    del NOT_RUN_QUICK[:]
    qskip = load_quick_skip(prop) if tier == 'quick' else []
    res = P.extract_many(cfgs)
    for cfg in cfgs:
        db = P.load_db(cfg)
        dbs[cfg] = db
        n = 0
        nerr = 0
        for cn, fn in sorted(db['functions'].items()):
            if fn.get('error'):
                nerr += 1
                continue
            c = families.contract_for(fn, db)
            if c is None and families.name_in_property(fn.get('name'), prop) and families.looks_like_api(fn, db):
                UNMATCHED.append('%s: %s(%s) [%s] %s:%s' % (cfg, fn['name'], ', '.join(p['ctype'] for p in fn['params']), fn.get('owner') or '-',
                                                          os.path.basename(fn.get('file') or '?'), fn.get('line')))
            if c is None or prop not in c.props:
                continue
            if tier == 'quick' and not quick_sample(fn, c, db):
                continue
            ex = excluded(excl, c, fn, cfg)
            if not ex and getattr(c, 'not_covered', None):
                ex = {'reason': c.not_covered}
            if ex:
                NOT_COVERED.append({'function': '%s %s(%s) [%s]' % (c.family, fn['name'], ', '.join(p['ctype'] for p in fn['params']), fn.get('owner') or '-'),
                                    'configuration': cfg, 'reason': ex['reason'][:160]})
                continue
            if only and not re.search(only, '%s %s %s %s' % (c.family, fn['name'], fn.get('owner'), ' '.join(p['ctype'] for p in fn['params']))):
                continue
            qs = excluded(qskip, c, fn, cfg)
            if qs:
                # too slow for the check that runs on every change: discharged by the thorough tier only, and listed as such
                NOT_RUN_QUICK.append({'function': '%s %s(%s) [%s]' % (c.family, fn['name'], ', '.join(p['ctype'] for p in fn['params']), fn.get('owner') or '-'),
                                      'configuration': cfg, 'reason': qs['reason'][:200]})
                continue
            n += 1
            repl = {}
            if getattr(c, 'replace_callees', None):
                for cal in fn.get('calls', []):
                    cf = db['functions'].get(cal)
                    if cf and not cf.get('error') and c.replace_callees(cf):
                        cc2 = families.contract_for(cf, db)
                        if cc2 is not None:
                            repl[cal] = cc2
            if getattr(c, 'replace_with', None):
                repl.update(c.replace_with)
            for cpart in c.split(tier):
                try:
                    ob = P.build_obligation(prop, cfg, db, fn, cpart, repl)
                except (P.tu.ExtractionError, P.cxx2c.Abort) as e:
                    problems.append('%s: %s: %s' % (cfg, cn, e))
                    break
                if ob.missing_models:
                    problems.append('%s: %s (%s): missing instruction model(s): %s' % (cfg, fn['name'], cn, ' '.join(ob.missing_models)))
                    break
                if ob.key in obs:
                    obs[ob.key].cfgs.append(cfg)
                else:
                    obs[ob.key] = ob
        # functions that match a family of this property but failed to extract are problems, not silence
        for cn, fn in db['functions'].items():
            if fn.get('error') and 'without body: fmod' in fn['error']:
                continue    # float operator% / fmod is declared but not defined in AVEL (a compile/link matter: C19), not an extraction failure
            if fn.get('error') and fn.get('name') and families.name_in_property(fn.get('name'), prop):
                problems.append('%s: %s (%s): extraction failed: %s' % (cfg, fn.get('name'), cn, fn['error'][:200]))
        stats[cfg] = {'functions_under_contract': n, 'functions_extracted': len(db['functions']) - nerr,
                      'extraction_errors': nerr, 'cache_hit': res[cfg][1]}
    return list(obs.values()), stats, problems, dbs


def list_functions(prop, cfgs):
    obs, stats, problems, dbs = gather(prop, cfgs)
    for ob in sorted(obs, key=lambda o: o.ident()):
        print('%-60s %s:%s  %s' % (ob.ident(), os.path.basename(ob.fn.get('file') or '?'), ob.fn.get('line'), ','.join(ob.cfgs)))
    print(json.dumps(stats, indent=1))
    for p in problems[:50]:
        print('PROBLEM', p)
    return 0


def canary_of(ob):
    """same obligation with the first post-condition negated: must FAIL (vacuity guard)"""
    c = copy.copy(ob.contract)
    if not c.ensures:
        return None
    idx = 0
    for i, (lab, e) in enumerate(c.ensures):
        if 'well-formed' not in lab and 'returns' not in lab:
            idx = i
            break
    ens = list(c.ensures)
    lab, e = ens[idx]
    ens[idx] = ('CANARY negated: ' + lab, '!(%s)' % e)
    c.ensures = ens
    return c


def classify(ob):
    r = ob.result
    if r is None:
        return 'undecided', 'not run'
    if r['verdict'] == 'undecided':
        return 'undecided', r['reason']
    npost = sum(1 for p in r['props'] if p['name'] and '.postcondition.' in p['name'] and p['name'].startswith(ob.cname + '.'))
    if npost == 0:
        return 'undecided', 'vacuity guard: no postcondition obligation generated for the function under contract'
    for m in r.get('messages', []):
        if 'ignoring' in m:
            return 'undecided', 'CBMC ignored a construct: ' + m[:200]
    if r['verdict'] == 'pass':
        return 'pass', None
    if getattr(ob.contract, 'forwarding', False):
        return 'undecided', 'forwarding obligation failed (the function no longer forwards to the replaced callee in the expected way) and no direct contract is available for it'
    return 'fail', None


def failed_props(ob):
    return [p for p in ob.result['props'] if p['status'] != 'SUCCESS']


def is_missing_model(ob):
    fp = failed_props(ob)
    # 'model: ...' assertions are the instruction models' own statements of what they do NOT model (an immediate, a rounding
    # argument): reaching one says the model is incomplete for this code, never that the code is wrong
    return any('no body' in (p.get('desc') or '') or (p.get('name') or '').endswith('no-body')
               or 'undefined function should be unreachable' in (p.get('desc') or '')
               or (p.get('desc') or '').startswith('model:') for p in fp)


def check_property(prop, tier, configs=None, only=None, keep=False, write_evidence=True):
    t0 = time.time()
    if prop in PROPS_NA:
        print('property %s is not applicable to this technique: %s' % (prop, PROPS_NA[prop]))
        return 2
    cfgs = configs or tier_configs(tier, prop)
    sc = P.Scratch('run-%s' % prop)
    exit_code = 0
    try:
        obs, stats, problems, dbs = gather(prop, cfgs, only, tier)
        print('%s: %d distinct obligations (functions under contract x distinct extracted text) over configurations %s' % (
            prop, len(obs), ','.join(cfgs)), file=sys.stderr)
        if not obs:
            print('no obligation generated for %s -- undecided' % prop)
            return 2
        # canaries: one per family
        fam_seen = {}
        for ob in sorted(obs, key=lambda o: o.key):
            fam_seen.setdefault(ob.contract.family, ob)
        canaries = []
        for fam, ob in fam_seen.items():
            cc = canary_of(ob)
            if cc is None:
                continue
            db = dbs[ob.cfgs[0]]
            cob = P.build_obligation(prop, ob.cfgs[0], db, ob.fn, cc, getattr(ob, 'repl_contracts', None))
            cob.is_canary = True
            canaries.append(cob)
        P.run_obligations(obs + canaries, sc, tier)
        # forwarding obligations (callee replaced by an abstract contract) that fail are not violations: the code may have
        # stopped forwarding in that particular way.  The direct contract (callee inlined) is discharged instead and decides.
        fb = []
        for ob in obs:
            fbc = getattr(ob.contract, 'fallback', None)
            if fbc is not None and ob.result and (ob.result['verdict'] != 'pass'):
                for cpart in fbc.split(tier):
                    try:
                        fo = P.build_obligation(prop, ob.cfgs[0], dbs[ob.cfgs[0]], ob.fn, cpart)
                    except (P.tu.ExtractionError, P.cxx2c.Abort) as e:
                        problems.append('%s: %s: %s' % (ob.cfgs[0], ob.cname, e))
                        continue
                    fo.cfgs = list(ob.cfgs)
                    fo.replaces = ob
                    fb.append(fo)
        if fb:
            print('  %d forwarding obligation(s) failed; discharging the direct contract(s) instead (%d obligations)' % (len({id(f.replaces) for f in fb}), len(fb)), file=sys.stderr)
            P.run_obligations(fb, sc, tier, progress=False)
            dead = {id(f.replaces) for f in fb}
            obs = [o for o in obs if id(o) not in dead] + fb
        # loop contracts that no longer fit the loop (tool error while instrumenting): bounded stand-in where one is defined
        bd = []
        for ob in obs:
            bf = getattr(ob.contract, 'bounded_fallback', None)
            if bf and ob.result and ob.result['verdict'] == 'undecided' and re.search(r'goto-cc failed|goto-instrument failed', ob.result.get('reason') or ''):
                cc = copy.copy(ob.contract)
                cc.loops = {}
                cc.requires = list(cc.requires) + list(bf['requires'])
                cc.unwind = bf['unwind']
                cc.bounded = 'loop contract not applicable to the rewritten loop: BOUNDED check, %s, %d unwindings with unwinding assertions' % (' && '.join(bf['requires']), bf['unwind'])
                cc.bounded_fallback = None
                bo = P.build_obligation(prop, ob.cfgs[0], dbs[ob.cfgs[0]], ob.fn, cc, getattr(ob, 'repl_contracts', None))
                bo.cfgs = list(ob.cfgs)
                bo.replaces = ob
                bd.append(bo)
        if bd:
            print('  %d loop contract(s) no longer fit the code; bounded stand-in discharged instead' % len(bd), file=sys.stderr)
            P.run_obligations(bd, sc, tier, progress=False)
            dead = {id(b.replaces) for b in bd}
            obs = [o for o in obs if id(o) not in dead] + bd
        known = [k for k in load_known() if (k['property'] == prop or prop in k.get('also_properties', [])) and k.get('status') == 'open']
        n_cbmc = 0
        n_discharged = 0
        n_partial = 0
        passed = []
        undecided = []
        violations = []
        known_hits = []
        solver_s = collections.Counter()
        trusted = set()
        for ob in obs:
            v, why = classify(ob)
            r = ob.result
            solver_s[r.get('backend') or 'none'] += r.get('solver_s', 0)
            for e in ob.externs:
                trusted.add(e)
            if v == 'pass':
                passed.append(ob)
                if getattr(ob.contract, 'partial', None) or getattr(ob.contract, 'bounded', None):
                    n_partial += r['n_props']       # partial-domain / bounded: reported, never counted as proved
                else:
                    n_cbmc += r['n_props']
                    n_discharged += r['n_props']
            elif v == 'undecided':
                undecided.append((ob, why))
            else:
                if is_missing_model(ob):
                    undecided.append((ob, 'missing model: ' + '; '.join(sorted({(p.get('desc') or '')[:80] for p in failed_props(ob)}))[:300]))
                    continue
                violations.append(ob)
        bad_canaries = [c for c in canaries if c.result and c.result['verdict'] == 'pass']
        und_canaries = [c for c in canaries if not c.result or c.result['verdict'] == 'undecided']
        # ---- report
        import replay
        viol_lines = []
        # known findings: a failing obligation that matches an open finding is discharged a second time with the
        # finding's input region excluded (requires !predicate); only if that residual passes is it a KNOWN-FINDING
        residual = []
        new_viol = []
        n_replayed = 0
        n_confirmed_exec = 0
        deferred = []
        for ob in violations:
            hit = replay.match_known(ob, known)
            if not hit:
                continue
            rq = replay.residual_requires(ob, hit)
            if rq is None:          # the finding covers every input of this instantiation
                known_hits.append((ob, hit))
                ob.known = hit
                continue
            cc = copy.copy(ob.contract)
            cc.requires = list(cc.requires) + [rq]
            rob = P.build_obligation(prop, ob.cfgs[0], dbs[ob.cfgs[0]], ob.fn, cc, getattr(ob, 'repl_contracts', None))
            rob.parent = ob
            rob.hit = hit
            residual.append(rob)
        if residual:
            P.run_obligations(residual, sc, tier, progress=False)
            for rob in residual:
                v, why = classify(rob)
                if v == 'pass':
                    known_hits.append((rob.parent, rob.hit))
                    rob.parent.known = rob.hit
                    n_cbmc += rob.result['n_props']
                    n_discharged += rob.result['n_props']
                elif v == 'undecided':
                    undecided.append((rob.parent, 'residual obligation (known finding region excluded) undecided: ' + (why or '')))
                    rob.parent.known = rob.hit
                else:
                    # a violation OUTSIDE the known region: report the residual obligation's own counterexample
                    rob.parent.known = rob.hit
                    new_viol.append(rob)
        for ob in violations + new_viol:
            if getattr(ob, 'known', None) and ob not in new_viol:
                continue
            n_replayed += 1
            rp = replay.record_and_replay(prop, ob, dbs[ob.cfgs[0]], sc, do_replay=(n_replayed <= MAX_REPLAYS))
            if rp['status'] == 'not-reproduced' and any(dd.endswith('_UF') for dd in ob.defines):
                # the failed obligation treats a multiplier / divider / FPU operation as uninterpreted: its counterexample
                # may rest on values no real multiplier produces.  Discharge the same contract with the operation concrete
                # (interpreted) to obtain an input of the real arithmetic, and replay that one.
                cc = copy.copy(ob.contract)
                cc.defines = [dd for dd in (cc.defines or []) if not dd.endswith('_UF')]
                cc.flags = list(cc.flags or []) + ['mul']
                # only the post-conditions that failed (smaller query: one lane's multipliers instead of all)
                idx = sorted({int(m.group(1)) for p in failed_props(ob) for m in [re.search(r'\.postcondition\.(\d+)$', p.get('name') or '')] if m})
                keep = [cc.ensures[i - 1] for i in idx if 0 < i <= len(cc.ensures)]
                if keep:
                    cc.ensures = keep[:2]
                cob = P.build_obligation(prop, ob.cfgs[0], dbs[ob.cfgs[0]], ob.fn, cc, getattr(ob, 'repl_contracts', None))
                cob.cfgs = list(ob.cfgs)
                P.run_obligations([cob], sc, tier, progress=False)
                v2, why2 = classify(cob)
                if v2 == 'fail':
                    rp = replay.record_and_replay(prop, cob, dbs[ob.cfgs[0]], sc, do_replay=True)
                    ob = cob
                elif v2 == 'pass':
                    undecided.append((ob, 'fails with the arithmetic operation uninterpreted but passes with it interpreted: the code no longer has the shape the code-level contract states (or relies on arithmetic facts): ' + rp['path']))
                    continue
                else:
                    undecided.append((ob, 'fails with the arithmetic operation uninterpreted; with it interpreted: %s' % (why2 or '')))
                    continue
            if rp['status'] == 'not-reproduced':
                undecided.append((ob, 'counterexample did not replay on the real code (model/emitter defect?): ' + rp['path']))
                continue
            if rp['status'] == 'not-executed':
                # beyond the replay cap: classified after the loop, by what the executed replays of this run showed
                deferred.append((ob, rp))
                continue
            if rp['status'] == 'confirmed':
                n_confirmed_exec += 1
            if rp['status'] != 'confirmed' and (any(dd.endswith('_UF') for dd in ob.defines) or getattr(ob.contract, 'gm', False) or getattr(ob.contract, 'modulo_lemma', None)):
                # code-level (routing) contracts pin the SHAPE of the computation; without a real failing input a failure only
                # says that the code no longer has that shape, which a correct rewrite would cause as well: undecided
                undecided.append((ob, 'code-level contract failed and no failing input of the real code was obtained (the computation no longer has the stated shape): ' + rp['path']))
                continue
            viol_lines.append('VIOLATION property=%s replay=%s%s' % (prop, rp['path'], '' if rp['status'] == 'confirmed' else ' no-failing-input-found'))
            print('  failed: %s  [%s]  %s' % (ob.ident(), ','.join(ob.cfgs), '; '.join((p.get('desc') or '')[:100] for p in failed_props(ob)[:3])))
        for ob, rp in deferred:
            if n_confirmed_exec:
                # recorded with its counterexample, not re-executed: reported without claiming a failing input
                viol_lines.append('VIOLATION property=%s replay=%s no-failing-input-found' % (prop, rp['path']))
                print('  failed (counterexample recorded, not replayed -- cap): %s  [%s]  %s' % (ob.ident(), ','.join(ob.cfgs), '; '.join((p.get('desc') or '')[:100] for p in failed_props(ob)[:3])))
            else:
                undecided.append((ob, 'counterexample recorded but not replayed (cap of %d replays per run) and none of the replayed counterexamples of this run was confirmed on the real code: %s' % (MAX_REPLAYS, rp['path'])))
        seen_k = set()
        for ob, hit in known_hits:
            if hit['id'] in seen_k:
                continue
            seen_k.add(hit['id'])
            n = sum(1 for o, h in known_hits if h['id'] == hit['id'])
            print('KNOWN-FINDING: property=%s %s [%s; %d function instantiation(s) in this run]' % (prop, hit['summary'], hit['id'], n))
        for l in viol_lines:
            print(l)
        if bad_canaries:
            for c in bad_canaries:
                print('VACUITY: canary passed for family %s (%s) -- harness constrains nothing' % (c.contract.family, c.ident()))
        for ob, why in undecided[:40]:
            print('UNDECIDED: %s [%s]: %s' % (ob.ident(), ','.join(ob.cfgs), (why or '')[:400]))
        for pb in problems[:40]:
            print('EXTRACTION-PROBLEM: ' + pb)
        lemmas_ok = check_lemmas(prop, tier)
        if not lemmas_ok:
            print('UNDECIDED: a Lean lemma this property relies on did not check: %s' % json.dumps(LEMMA_STATUS)[:400])
        if viol_lines:
            exit_code = 1
        elif undecided or bad_canaries or problems or und_canaries or not lemmas_ok:
            exit_code = 2
        wall = time.time() - t0
        slow = sorted(((ob.result.get('solver_s', 0), ob.ident(), ','.join(ob.cfgs)) for ob in obs if ob.result), reverse=True)[:8]
        for sec, ident, cf in slow:
            if sec > 45:
                print('SLOW: %.0fs %s [%s]' % (sec, ident, cf))
        SLOWEST[:] = [{'seconds': round(sec, 1), 'function': ident, 'configurations': cf} for sec, ident, cf in slow]
        if os.environ.get('VERIF_TIMING'):
            with open(os.environ['VERIF_TIMING'], 'w') as f:
                json.dump(sorted(((round(ob.result.get('solver_s', 0), 1), ob.ident(), ','.join(ob.cfgs), ob.result.get('backend'), ob.result.get('verdict'))
                                  for ob in obs if ob.result), reverse=True), f, indent=0)
        print('%s %s: %d functions under contract, %d CBMC obligations discharged, %d violations, %d known findings, %d undecided, %d canaries (%d bad), %.0fs' % (
            prop, tier, len(obs), n_discharged, len(viol_lines), len(known_hits), len(undecided), len(canaries), len(bad_canaries), wall))
        if write_evidence:
            write_ev(prop, tier, cfgs, obs, passed, violations, known_hits, undecided, canaries, bad_canaries, stats, problems,
                     n_cbmc, n_discharged, solver_s, trusted, wall, len(viol_lines), n_partial)
    finally:
        if not keep:
            sc.cleanup()
        else:
            print('scratch kept: ' + sc.dir, file=sys.stderr)
    return exit_code


# property-specific statements of what a check relies on from OTHER registered checks
PROP_ASSUMPTIONS = {
    'C16': ['C16 is an equality between a scalar overload and a lane of the vector function.  This check puts every scalar overload '
            'under the bit-level specification of its family; the LANE side is put under the same specification functions by the checks of '
            'C04 (shifts, rotations), C06 (bit functions), C07 (min/max/clamp, abs, negate, average, midpoint, keep/clear/blend), C11, C12, C13 '
            '(float family).  A change of a vector function is reported by the property that owns it, not by this check.'],
}

LEMMA_PROPS = {'C01': 'L1 (64-bit product from 32-bit partial products)', 'C05': 'L5 (Euclidean witness of shift-subtract dividers), L2, A1 (truncated rounded binary64 quotient)',
               'C14': 'L3 (unsigned), L4 (signed) Granlund-Montgomery, L6 (high product from partial products)', 'C15': 'L3, L4 (lane-wise), L6, L7 (signed high product from the unsigned one)'}
LEMMA_STATUS = {}


def check_lemmas(prop, tier):
    """thorough tier: the Lean files the property's modulo-lemma obligations rely on are re-checked by `lean` on this machine"""
    LEMMA_STATUS.clear()
    if prop not in LEMMA_PROPS:
        return True
    LEMMA_STATUS['relies_on'] = LEMMA_PROPS[prop]
    if tier != 'thorough':
        LEMMA_STATUS['checked'] = 'not re-checked in the quick tier (the thorough tier runs `lean` on /verif/lemmas/*.lean)'
        return True
    import subprocess, glob
    ok = True
    for f in sorted(glob.glob(os.path.join(ROOT, 'lemmas', '*.lean'))):
        t0 = time.time()
        try:
            r = subprocess.run(['lean', f], capture_output=True, text=True, timeout=1800)
            bad = r.returncode != 0 or 'sorry' in (r.stdout + r.stderr) or 'error' in (r.stdout + r.stderr)
            LEMMA_STATUS[os.path.basename(f)] = {'exit': r.returncode, 'seconds': round(time.time() - t0, 1), 'ok': not bad, 'output_tail': (r.stdout + r.stderr)[-400:]}
        except (OSError, subprocess.TimeoutExpired) as e:
            bad = True
            LEMMA_STATUS[os.path.basename(f)] = {'exit': None, 'ok': False, 'output_tail': str(e)[:300]}
        ok = ok and not bad
    return ok


MAX_REPLAYS = int(os.environ.get('VERIF_MAX_REPLAYS', '24'))   # further violations of the same run are recorded with their counterexample but not re-executed

PROPS_NA = {'C19': 'compile/link matrix facts are not expressible as function contracts'}


def write_ev(prop, tier, cfgs, obs, passed, violations, known_hits, undecided, canaries, bad_canaries, stats, problems,
             n_cbmc, n_discharged, solver_s, trusted, wall, nviol, n_partial=0):
    fams = collections.Counter(ob.contract.family for ob in obs)
    samples = []
    for ob in sorted(passed, key=lambda o: o.key)[:6]:
        samples.append({'function': ob.ident(), 'file': '%s:%s' % (os.path.basename(ob.fn.get('file') or '?'), ob.fn.get('line')),
                        'configurations': ob.cfgs, 'cbmc_obligations': ob.result['n_props'], 'backend': ob.result['backend'],
                        'ensures': [e for l, e in ob.contract.ensures][:2]})
    ev = {
        'property_id': prop, 'tier': tier, 'seed': SEED, 'level': 'proof',
        'coverage': {
            'obligations': n_cbmc, 'discharged': n_discharged,
            'checker_cmd': 'goto-cc tu.c && goto-instrument --dfcc main --enforce-contract <fn> [--apply-loop-contracts] && cbmc --object-bits 12 [--external-sat-solver kissat]',
            'trusted_base': sorted(trusted) + ['clang 14 front end (typed AST)', 'cxx2c emitter (/verif/extract)', 'CBMC 6.11 + minisat/kissat',
                                               'spec functions in /verif/spec'],
            'functions_under_contract': len(obs),
            'functions_proved': len(passed),
            'functions_by_family': dict(fams),
            'configurations': cfgs,
            'per_configuration': stats,
            'undecided': [{'function': ob.ident(), 'configurations': ob.cfgs, 'reason': (why or '')[:300]} for ob, why in undecided][:100],
            'violations': [{'function': ob.ident(), 'configurations': ob.cfgs} for ob in violations][:100],
            'known_findings_hit': [h['id'] for ob, h in known_hits],
            'canaries_run': len(canaries), 'canaries_failed_as_required': len(canaries) - len(bad_canaries),
            'extraction_problems': problems[:50],
            'partial_domain_obligations_discharged_not_counted_as_proof': n_partial,
            'api_functions_without_contract': sorted(set(UNMATCHED))[:200],
            'slowest_obligations': list(SLOWEST),
            'lemmas': dict(LEMMA_STATUS),
            'thorough_tier_only': NOT_RUN_QUICK[:300],
            'thorough_tier_only_count': len(NOT_RUN_QUICK),
            'not_covered': NOT_COVERED[:200],
            'not_covered_count': len(NOT_COVERED),
            'bounded_functions': sorted({ob.ident() + ': ' + ob.contract.bounded for ob in obs if getattr(ob.contract, 'bounded', None)})[:40],
            'partial_domain_functions': sorted({ob.ident() + ': ' + ob.contract.partial for ob in obs if getattr(ob.contract, 'partial', None)})[:80],
            'solver_seconds_by_backend': {k: round(v, 1) for k, v in solver_s.items()},
            'samples': samples,
            'explanation': 'Each function under contract is extracted mechanically from /repo (clang typed AST -> C), its contract '
                           '(post-condition from the property statement over lane views and spec functions) is enforced with '
                           'goto-instrument --dfcc and every generated obligation (ensures clauses, assigns checks, pointer/overflow/shift '
                           'safety checks) is discharged by CBMC for all inputs. obligations/discharged count CBMC-level obligations of the '
                           'functions whose every obligation passed; undecided functions are listed and not counted.',
        },
        'assumptions': [
            'instruction / libc models in /verif/models are the semantics of the external functions (validated on this CPU, not proved)',
            'clang 14 typed AST and the cxx2c emitter preserve the meaning of the C++ source (guarded by abort-on-unknown and differential tests)',
            'machine integers are bit-vectors; IEEE-754 arithmetic as encoded by CBMC',
        ] + PROP_ASSUMPTIONS.get(prop, []),
        'wall_s': round(wall, 1), 'violations': nviol,
    }
    os.makedirs(os.path.join(ROOT, 'evidence'), exist_ok=True)
    with open(os.path.join(ROOT, 'evidence', prop + '.json'), 'w') as f:
        json.dump(ev, f, indent=1)
