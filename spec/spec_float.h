/* spec_float.h -- specification functions for float / double lanes (C10..C13).
 * Under CBMC the reference semantics is CBMC's IEEE-754 theory and its <math.h> models under the
 * current __CPROVER_rounding_mode; natively (replay) the same names resolve to libm. */
#ifndef SPEC_FLOAT_H
#define SPEC_FLOAT_H
#include <stdint.h>
#include <math.h>

static inline int spec_isnan32(uint32_t u) { return (u & 0x7f800000u) == 0x7f800000u && (u & 0x007fffffu) != 0; }
static inline int spec_isnan64(uint64_t u) { return (u & 0x7ff0000000000000ull) == 0x7ff0000000000000ull && (u & 0x000fffffffffffffull) != 0; }
static inline int spec_isinf32(uint32_t u) { return (u & 0x7fffffffu) == 0x7f800000u; }
static inline int spec_isinf64(uint64_t u) { return (u & 0x7fffffffffffffffull) == 0x7ff0000000000000ull; }
static inline int spec_iszero32(uint32_t u) { return (u & 0x7fffffffu) == 0; }
static inline int spec_iszero64(uint64_t u) { return (u & 0x7fffffffffffffffull) == 0; }
static inline int spec_issub32(uint32_t u) { return (u & 0x7f800000u) == 0 && (u & 0x007fffffu) != 0; }
static inline int spec_issub64(uint64_t u) { return (u & 0x7ff0000000000000ull) == 0 && (u & 0x000fffffffffffffull) != 0; }
/* bit-pattern equality up to NaN payload: both NaN, or identical patterns */
static inline int spec_same32(uint32_t a, uint32_t b) { return (spec_isnan32(a) && spec_isnan32(b)) || a == b; }
static inline int spec_same64(uint64_t a, uint64_t b) { return (spec_isnan64(a) && spec_isnan64(b)) || a == b; }
/* numeric equality (+0 == -0), NaN matches NaN */
static inline int spec_numeq32(float a, float b) { return (a != a && b != b) || a == b; }
static inline int spec_numeq64(double a, double b) { return (a != a && b != b) || a == b; }

/* bit <-> value (duplicates of the base helpers so that this file is self-contained) */
static inline float  spec_u2f(uint32_t u) { union { uint32_t u; float f; } c; c.u = u; return c.f; }
static inline double spec_u2d(uint64_t u) { union { uint64_t u; double f; } c; c.u = u; return c.f; }
static inline uint32_t spec_f2u(float f)  { union { uint32_t u; float f; } c; c.f = f; return c.u; }
static inline uint64_t spec_d2u(double f) { union { uint64_t u; double f; } c; c.f = f; return c.u; }

#if defined(AVM_NATIVE)
#include <fenv.h>
static inline int spec_cur_rm(void) { int m = fegetround(); return m == FE_TONEAREST ? 0 : m == FE_DOWNWARD ? 1 : m == FE_UPWARD ? 2 : 3; }
static inline float spec_rti32(float x, int m) {
  int old = fegetround(); fesetround(m == 0 ? FE_TONEAREST : m == 1 ? FE_DOWNWARD : m == 2 ? FE_UPWARD : FE_TOWARDZERO);
  volatile float v = x; float r = nearbyintf(v); fesetround(old); return r; }
static inline double spec_rti64(double x, int m) {
  int old = fegetround(); fesetround(m == 0 ? FE_TONEAREST : m == 1 ? FE_DOWNWARD : m == 2 ? FE_UPWARD : FE_TOWARDZERO);
  volatile double v = x; double r = nearbyint(v); fesetround(old); return r; }
#else
static inline int spec_cur_rm(void) { return __CPROVER_rounding_mode; }
static inline float spec_rti32(float x, int m) { return __CPROVER_round_to_integralf(x, m); }
static inline double spec_rti64(double x, int m) { return __CPROVER_round_to_integrald(x, m); }
#endif

/* ---- C11: rounding to integral values (same number as the C library function) ---- */
static inline float  spec_ceil32(float x)  { return spec_rti32(x, 2); }
static inline float  spec_floor32(float x) { return spec_rti32(x, 1); }
static inline float  spec_trunc32(float x) { return spec_rti32(x, 3); }
static inline double spec_ceil64(double x)  { return spec_rti64(x, 2); }
static inline double spec_floor64(double x) { return spec_rti64(x, 1); }
static inline double spec_trunc64(double x) { return spec_rti64(x, 3); }
/* round: halfway cases away from zero = trunc(x) adjusted by one when the discarded fraction is >= 1/2 */
static inline float spec_round32(float x) {
  if (x != x) return x;
  float t = spec_rti32(x, 3), d = x - t;            /* exact: |d| < 1 */
  if (d >= 0.5f) return t + 1.0f;
  if (d <= -0.5f) return t - 1.0f;
  return t;
}
static inline double spec_round64(double x) {
  if (x != x) return x;
  double t = spec_rti64(x, 3), d = x - t;
  if (d >= 0.5) return t + 1.0;
  if (d <= -0.5) return t - 1.0;
  return t;
}
static inline float  spec_nearbyint32(float x)  { return spec_rti32(x, spec_cur_rm()); }
static inline double spec_nearbyint64(double x) { return spec_rti64(x, spec_cur_rm()); }

/* ---- C13: classification by bit fields; values of <cmath>'s FP_* macros on this platform (glibc) ---- */
#define SPEC_FP_NAN 0
#define SPEC_FP_INFINITE 1
#define SPEC_FP_ZERO 2
#define SPEC_FP_SUBNORMAL 3
#define SPEC_FP_NORMAL 4
static inline int spec_fpclassify32(uint32_t u) {
  return spec_isnan32(u) ? SPEC_FP_NAN : spec_isinf32(u) ? SPEC_FP_INFINITE : spec_iszero32(u) ? SPEC_FP_ZERO : spec_issub32(u) ? SPEC_FP_SUBNORMAL : SPEC_FP_NORMAL;
}
static inline int spec_fpclassify64(uint64_t u) {
  return spec_isnan64(u) ? SPEC_FP_NAN : spec_isinf64(u) ? SPEC_FP_INFINITE : spec_iszero64(u) ? SPEC_FP_ZERO : spec_issub64(u) ? SPEC_FP_SUBNORMAL : SPEC_FP_NORMAL;
}
static inline int spec_isfinite32(uint32_t u) { return (u & 0x7f800000u) != 0x7f800000u; }
static inline int spec_isfinite64(uint64_t u) { return (u & 0x7ff0000000000000ull) != 0x7ff0000000000000ull; }
static inline int spec_isnormal32(uint32_t u) { return spec_fpclassify32(u) == SPEC_FP_NORMAL; }
static inline int spec_isnormal64(uint64_t u) { return spec_fpclassify64(u) == SPEC_FP_NORMAL; }
static inline int spec_signbit32(uint32_t u) { return (int)(u >> 31); }
static inline int spec_signbit64(uint64_t u) { return (int)(u >> 63); }

/* ---- C12 ---- */
#define SPEC_ILOGB0   (-2147483647 - 1)
#define SPEC_ILOGBNAN (-2147483647 - 1)
/* unbiased exponent of a finite non-zero value, subnormals normalised */
static inline int32_t spec_exp32(uint32_t u) {
  int32_t e = (int32_t)((u >> 23) & 0xff);
  uint32_t f = u & 0x7fffffu;
  if (e != 0) return e - 127;
  int32_t r = -127;
  for (int i = 0; i < 23; i++) { if (f & 0x400000u) break; f <<= 1; r--; }
  return r;
}
static inline int32_t spec_exp64(uint64_t u) {
  int32_t e = (int32_t)((u >> 52) & 0x7ff);
  uint64_t f = u & 0xfffffffffffffull;
  if (e != 0) return e - 1023;
  int32_t r = -1023;
  for (int i = 0; i < 52; i++) { if (f & 0x8000000000000ull) break; f <<= 1; r--; }
  return r;
}
static inline int32_t spec_ilogb32(uint32_t u) {
  if (spec_isnan32(u)) return SPEC_ILOGBNAN;
  if (spec_isinf32(u)) return 2147483647;
  if (spec_iszero32(u)) return SPEC_ILOGB0;
  return spec_exp32(u);
}
static inline int32_t spec_ilogb64(uint64_t u) {
  if (spec_isnan64(u)) return SPEC_ILOGBNAN;
  if (spec_isinf64(u)) return 2147483647;
  if (spec_iszero64(u)) return SPEC_ILOGB0;
  return spec_exp64(u);
}
/* logb: as a floating value; -inf for zeros, +inf for infinities, NaN for NaN */
static inline int spec_logb_ok32(uint32_t r, uint32_t u) {
  if (spec_isnan32(u)) return spec_isnan32(r);
  if (spec_isinf32(u)) return r == 0x7f800000u;
  if (spec_iszero32(u)) return r == 0xff800000u;
  return spec_u2f(r) == (float)spec_exp32(u);
}
static inline int spec_logb_ok64(uint64_t r, uint64_t u) {
  if (spec_isnan64(u)) return spec_isnan64(r);
  if (spec_isinf64(u)) return r == 0x7ff0000000000000ull;
  if (spec_iszero64(u)) return r == 0xfff0000000000000ull;
  return spec_u2d(r) == (double)spec_exp64(u);
}
/* frexp: zeros return themselves with exponent 0; infinities and NaN return themselves (exponent unspecified);
 * otherwise the significand keeps sign and fraction bits, has exponent field bias-1 (value in [0.5,1)) and e = exp + 1 */
static inline int spec_frexp_ok32(uint32_t m, int32_t e, uint32_t x) {
  if (spec_isnan32(x)) return spec_isnan32(m);
  if (spec_isinf32(x)) return m == x;
  if (spec_iszero32(x)) return m == x && e == 0;
  uint32_t f = x & 0x7fffffu;
  if (((x >> 23) & 0xff) == 0) { for (int i = 0; i < 23; i++) { f <<= 1; if (f & 0x800000u) break; } f &= 0x7fffffu; }
  return m == ((x & 0x80000000u) | (126u << 23) | f) && e == spec_exp32(x) + 1;
}
static inline int spec_frexp_ok64(uint64_t m, int32_t e, uint64_t x) {
  if (spec_isnan64(x)) return spec_isnan64(m);
  if (spec_isinf64(x)) return m == x;
  if (spec_iszero64(x)) return m == x && e == 0;
  uint64_t f = x & 0xfffffffffffffull;
  if (((x >> 52) & 0x7ff) == 0) { for (int i = 0; i < 52; i++) { f <<= 1; if (f & 0x10000000000000ull) break; } f &= 0xfffffffffffffull; }
  return m == ((x & 0x8000000000000000ull) | (1022ull << 52) | f) && e == spec_exp64(x) + 1;
}
/* ldexp / scalbn: x * 2^e with ONE rounding (exact intermediate), overflow to infinity, gradual underflow;
 * zeros, infinities and NaN return themselves.  binary32: the product is exact in binary64 for |e| clamped to 400
 * (beyond that the result is already the overflow / underflow limit) */
static inline int spec_ldexp_ok32(uint32_t r, uint32_t x, int32_t e) {
  if (spec_isnan32(x)) return spec_isnan32(r);
  if (spec_isinf32(x) || spec_iszero32(x)) return r == x;
  int32_t k = e > 400 ? 400 : (e < -400 ? -400 : e);
  double p = spec_u2d((uint64_t)(1023 + k) << 52);
  return r == spec_f2u((float)((double)spec_u2f(x) * p));
}
/* binary64: the product is exact in long double; one rounding to binary64 in the current mode */
static inline double spec_pow2_f64(int k) { return spec_u2d((uint64_t)(1023 + k) << 52); }
static inline int spec_ldexp_ok64(uint64_t r, uint64_t x, int64_t e) {
  if (spec_isnan64(x)) return spec_isnan64(r);
  if (spec_isinf64(x) || spec_iszero64(x)) return r == x;
  int k = e > 2200 ? 2200 : (e < -2200 ? -2200 : (int)e);
  int k1 = k > 1000 ? 1000 : (k < -1000 ? -1000 : k); int r1 = k - k1;
  int k2 = r1 > 1000 ? 1000 : (r1 < -1000 ? -1000 : r1); int k3 = r1 - k2;
  return r == spec_d2u((double)((long double)spec_u2d(x) * (long double)spec_pow2_f64(k1) * (long double)spec_pow2_f64(k2) * (long double)spec_pow2_f64(k3)));
}
/* fmax / fmin: the larger / smaller operand; the other operand when exactly one is NaN; NaN when both are; either zero for +-0.
 * A SIGNALLING NaN operand is outside what <cmath> defines (C11 F.2.1: "does not define the behavior of signaling NaNs";
 * IEEE 754-2008 maxNum and glibc >= 2.25 return a quiet NaN, VRANGEPS does the same): for an sNaN operand either answer --
 * the other operand or a NaN -- satisfies the contract. */
#define SPEC_SNAN32(u) (spec_isnan32(u) && !((u) & 0x00400000u))
#define SPEC_SNAN64(u) (spec_isnan64(u) && !((u) & 0x0008000000000000ull))
static inline int spec_fmax_ok32(uint32_t r, uint32_t a, uint32_t b) {
  if (spec_isnan32(a) && spec_isnan32(b)) return spec_isnan32(r);
  if (spec_isnan32(a)) return r == b || (SPEC_SNAN32(a) && spec_isnan32(r));
  if (spec_isnan32(b)) return r == a || (SPEC_SNAN32(b) && spec_isnan32(r));
  float fa = spec_u2f(a), fb = spec_u2f(b);
  if (fa == fb) return r == a || r == b;
  return r == (fa > fb ? a : b);
}
static inline int spec_fmin_ok32(uint32_t r, uint32_t a, uint32_t b) {
  if (spec_isnan32(a) && spec_isnan32(b)) return spec_isnan32(r);
  if (spec_isnan32(a)) return r == b || (SPEC_SNAN32(a) && spec_isnan32(r));
  if (spec_isnan32(b)) return r == a || (SPEC_SNAN32(b) && spec_isnan32(r));
  float fa = spec_u2f(a), fb = spec_u2f(b);
  if (fa == fb) return r == a || r == b;
  return r == (fa < fb ? a : b);
}
static inline int spec_fmax_ok64(uint64_t r, uint64_t a, uint64_t b) {
  if (spec_isnan64(a) && spec_isnan64(b)) return spec_isnan64(r);
  if (spec_isnan64(a)) return r == b || (SPEC_SNAN64(a) && spec_isnan64(r));
  if (spec_isnan64(b)) return r == a || (SPEC_SNAN64(b) && spec_isnan64(r));
  double fa = spec_u2d(a), fb = spec_u2d(b);
  if (fa == fb) return r == a || r == b;
  return r == (fa > fb ? a : b);
}
static inline int spec_fmin_ok64(uint64_t r, uint64_t a, uint64_t b) {
  if (spec_isnan64(a) && spec_isnan64(b)) return spec_isnan64(r);
  if (spec_isnan64(a)) return r == b || (SPEC_SNAN64(a) && spec_isnan64(r));
  if (spec_isnan64(b)) return r == a || (SPEC_SNAN64(b) && spec_isnan64(r));
  double fa = spec_u2d(a), fb = spec_u2d(b);
  if (fa == fb) return r == a || r == b;
  return r == (fa < fb ? a : b);
}
/* fdim: max(x - y, +0); NaN if either operand is NaN */
static inline int spec_fdim_ok32(uint32_t r, uint32_t a, uint32_t b) {
  if (spec_isnan32(a) || spec_isnan32(b)) return spec_isnan32(r);
  float fa = spec_u2f(a), fb = spec_u2f(b);
  return fa > fb ? spec_numeq32(spec_u2f(r), fa - fb) : spec_iszero32(r);
}
static inline int spec_fdim_ok64(uint64_t r, uint64_t a, uint64_t b) {
  if (spec_isnan64(a) || spec_isnan64(b)) return spec_isnan64(r);
  double fa = spec_u2d(a), fb = spec_u2d(b);
  return fa > fb ? spec_numeq64(spec_u2d(r), fa - fb) : spec_iszero64(r);
}
/* frac: x - trunc(x); zero for zeros and integral values; NaN for infinities and NaN */
static inline int spec_frac_ok32(uint32_t r, uint32_t x) {
  if (spec_isnan32(x) || spec_isinf32(x)) return spec_isnan32(r);
  float f = spec_u2f(x);
  return spec_numeq32(spec_u2f(r), f - spec_trunc32(f));
}
static inline int spec_frac_ok64(uint64_t r, uint64_t x) {
  if (spec_isnan64(x) || spec_isinf64(x)) return spec_isnan64(r);
  double f = spec_u2d(x);
  return spec_numeq64(spec_u2d(r), f - spec_trunc64(f));
}
#endif
