/* spec_float.h -- specification functions for float / double lanes (C10..C13).
 * Under CBMC the reference semantics is CBMC's IEEE-754 theory and its <math.h> models under the
 * current __CPROVER_rounding_mode; natively (replay) the same names resolve to libm. */
#ifndef SPEC_FLOAT_H
#define SPEC_FLOAT_H
#include <stdint.h>
#include <math.h>

static inline int spec_isnan32(uint32_t u) { return (u & 0x7f800000u) == 0x7f800000u && (u & 0x007fffffu) != 0; }
static inline int spec_isnan64(uint64_t u) { return (u & 0x7ff0000000000000ull) == 0x7ff0000000000000ull && (u & 0x000fffffffffffffull) != 0; }
static inline int spec_isinf32(uint32_t u) { return (u & 0x7fffffffu) == 0x7f800000u; }
static inline int spec_isinf64(uint64_t u) { return (u & 0x7fffffffffffffffull) == 0x7ff0000000000000ull; }
static inline int spec_iszero32(uint32_t u) { return (u & 0x7fffffffu) == 0; }
static inline int spec_iszero64(uint64_t u) { return (u & 0x7fffffffffffffffull) == 0; }
static inline int spec_issub32(uint32_t u) { return (u & 0x7f800000u) == 0 && (u & 0x007fffffu) != 0; }
static inline int spec_issub64(uint64_t u) { return (u & 0x7ff0000000000000ull) == 0 && (u & 0x000fffffffffffffull) != 0; }
/* bit-pattern equality up to NaN payload: both NaN, or identical patterns */
static inline int spec_same32(uint32_t a, uint32_t b) { return (spec_isnan32(a) && spec_isnan32(b)) || a == b; }
static inline int spec_same64(uint64_t a, uint64_t b) { return (spec_isnan64(a) && spec_isnan64(b)) || a == b; }
/* numeric equality (+0 == -0), NaN matches NaN */
static inline int spec_numeq32(float a, float b) { return (a != a && b != b) || a == b; }
static inline int spec_numeq64(double a, double b) { return (a != a && b != b) || a == b; }
#endif
