/* spec_int.h -- specification functions for integer lanes.
 * Written from the property statements and the C++20 / C standard text, NOT from AVEL.
 * Every function works on the zero-extended bit pattern of a lane (uint64_t) and the lane
 * width `bits` (8/16/32/64); signed interpretations are explicit.  Loops are bounded by
 * `bits`, a constant at every call site, so CBMC unrolls them completely.
 * The file is valid C and C++ (it is compiled natively by the replay harness too). */
#ifndef SPEC_INT_H
#define SPEC_INT_H
#include <stdint.h>
#ifndef AVM_MUL_u64
#define AVM_MUL_u32(a, b) ((uint32_t)(a) * (uint32_t)(b))
#define AVM_MUL_u64(a, b) ((uint64_t)(a) * (uint64_t)(b))
#define AVM_MUL_u128(a, b) ((unsigned __int128)(a) * (unsigned __int128)(b))
#endif

static inline uint64_t spec_mask(unsigned bits) { return bits >= 64 ? ~(uint64_t)0 : (((uint64_t)1 << bits) - 1); }
/* sign-extend the low `bits` bits */
static inline int64_t spec_sx(uint64_t x, unsigned bits) {
  x &= spec_mask(bits);
  if (bits >= 64) return (int64_t)x;
  return ((x >> (bits - 1)) & 1) ? (int64_t)(x | ~spec_mask(bits)) : (int64_t)x;
}
static inline uint64_t spec_trunc(uint64_t x, unsigned bits) { return x & spec_mask(bits); }

/* ---- C01: modular arithmetic ---- */
static inline uint64_t spec_add(uint64_t a, uint64_t b, unsigned bits) { return (a + b) & spec_mask(bits); }
static inline uint64_t spec_sub(uint64_t a, uint64_t b, unsigned bits) { return (a - b) & spec_mask(bits); }
/* Modular product.  spec_mul is the defining form.  SAT back ends cannot prove two structurally different
 * multiplier circuits equal beyond ~12 bits (CBMC additionally encodes signed and unsigned multiplication
 * differently and narrows products to the width of the enclosing cast), so the post-condition of a
 * multiplication is stated as spec_mul_ok(r, a, b, bits): r equals ONE of several expressions, each of which
 * is, by two's-complement arithmetic alone, equal to (a*b) mod 2^bits: product of the zero-extended operands,
 * of the sign-extended operands (wrapping), formed at the lane width / 32 / 64 bits, and -- for 64-bit lanes --
 * the sum of 32-bit partial products (lemma L1, proved in /verif/lemmas).  Each disjunct alone implies the
 * property; which one the solver uses is immaterial.  Signed products in this function wrap by construction
 * (they are specification arithmetic, not code under test). */
static inline uint64_t spec_mul(uint64_t a, uint64_t b, unsigned bits) { return (a * b) & spec_mask(bits); }
#ifdef AVM_NATIVE
static inline int spec_mul_ok(uint64_t r, uint64_t a, uint64_t b, unsigned bits) { return (r & spec_mask(bits)) == spec_mul(a, b, bits); }
#else
#pragma CPROVER check push
#pragma CPROVER check disable "signed-overflow"
#pragma CPROVER check disable "conversion"
static inline int spec_mul_ok(uint64_t r, uint64_t a, uint64_t b, unsigned bits) {
  switch (bits) {
    case 8: {
      uint8_t ua = (uint8_t)a, ub = (uint8_t)b, ur = (uint8_t)r; int8_t sa = (int8_t)ua, sb = (int8_t)ub;
      return ur == (uint8_t)(ua * ub) || (int8_t)ur == (int8_t)(sa * sb) || ur == (uint8_t)((uint32_t)ua * (uint32_t)ub);
    }
    case 16: {
      uint16_t ua = (uint16_t)a, ub = (uint16_t)b, ur = (uint16_t)r; int16_t sa = (int16_t)ua, sb = (int16_t)ub;
      return ur == (uint16_t)((uint32_t)ua * (uint32_t)ub) || (int16_t)ur == (int16_t)(sa * sb);
    }
    case 32: {
      uint32_t ua = (uint32_t)a, ub = (uint32_t)b, ur = (uint32_t)r; int32_t sa = (int32_t)ua, sb = (int32_t)ub;
      return ur == ua * ub || (int32_t)ur == sa * sb || ur == (uint32_t)((uint64_t)ua * (uint64_t)ub);
    }
    default: {
      int64_t sa = (int64_t)a, sb = (int64_t)b;
      uint64_t al = a & 0xffffffffull, ah = a >> 32, bl = b & 0xffffffffull, bh = b >> 32;
#define SPEC_L1(P0, P1, P2) (r == (P0) + (((P1) + (P2)) << 32))
      return r == a * b || (int64_t)r == sa * sb
          /* lemma L1 (a*b mod 2^64 from 32-bit partial products), with either operand order of each product */
          || SPEC_L1(al * bl, al * bh, ah * bl) || SPEC_L1(al * bl, al * bh, bl * ah)
          || SPEC_L1(al * bl, bh * al, ah * bl) || SPEC_L1(al * bl, bh * al, bl * ah)
          || SPEC_L1(bl * al, al * bh, ah * bl) || SPEC_L1(bl * al, al * bh, bl * ah)
          || SPEC_L1(bl * al, bh * al, ah * bl) || SPEC_L1(bl * al, bh * al, bl * ah);
#undef SPEC_L1
    }
  }
}
#pragma CPROVER check pop
#endif
static inline uint64_t spec_neg(uint64_t a, unsigned bits) { return ((uint64_t)0 - a) & spec_mask(bits); }

/* ---- C06: <bit> ---- */
static inline uint64_t spec_popcount(uint64_t x, unsigned bits) {
  uint64_t c = 0;
  for (unsigned i = 0; i < bits; i++) c += (x >> i) & 1;
  return c;
}
static inline uint64_t spec_countl_zero(uint64_t x, unsigned bits) {
  uint64_t c = 0;
  for (unsigned i = 0; i < bits; i++) { if ((x >> (bits - 1 - i)) & 1) break; c++; }
  return c;
}
static inline uint64_t spec_countl_one(uint64_t x, unsigned bits) { return spec_countl_zero(~x & spec_mask(bits), bits); }
static inline uint64_t spec_countr_zero(uint64_t x, unsigned bits) {
  uint64_t c = 0;
  for (unsigned i = 0; i < bits; i++) { if ((x >> i) & 1) break; c++; }
  return c;
}
static inline uint64_t spec_countr_one(uint64_t x, unsigned bits) { return spec_countr_zero(~x & spec_mask(bits), bits); }
static inline uint64_t spec_bit_width(uint64_t x, unsigned bits) { return bits - spec_countl_zero(x, bits); }
static inline uint64_t spec_bit_floor(uint64_t x, unsigned bits) {
  x &= spec_mask(bits);
  return x == 0 ? 0 : (uint64_t)1 << (spec_bit_width(x, bits) - 1);
}
/* bit_ceil: smallest power of two >= x; 1 for x <= 1; the property fixes the result 0 when that
 * power of two is not representable (x above the top power of two). */
static inline uint64_t spec_bit_ceil(uint64_t x, unsigned bits) {
  x &= spec_mask(bits);
  if (x <= 1) return 1;
  uint64_t w = spec_bit_width(x - 1, bits);
  return w >= bits ? 0 : (uint64_t)1 << w;
}
static inline int spec_has_single_bit(uint64_t x, unsigned bits) { return spec_popcount(x, bits) == 1; }
static inline uint64_t spec_byteswap(uint64_t x, unsigned bits) {
  uint64_t r = 0;
  for (unsigned i = 0; i < bits / 8; i++) r |= ((x >> (8 * i)) & 0xff) << (bits - 8 - 8 * i);
  return r;
}
/* countl_sign: number of leading bits equal to the sign bit, not counting the sign bit itself */
static inline uint64_t spec_countl_sign(uint64_t x, unsigned bits) {
  x &= spec_mask(bits);
  uint64_t s = (x >> (bits - 1)) & 1;
  uint64_t y = s ? (~x & spec_mask(bits)) : x;
  return spec_countl_zero(y, bits) - 1;
}

/* ---- C04: shifts by 0..bits inclusive, rotations by any amount ---- */
static inline uint64_t spec_shl(uint64_t x, uint64_t s, unsigned bits) { return s >= bits ? 0 : (x << s) & spec_mask(bits); }
static inline uint64_t spec_shr(uint64_t x, uint64_t s, unsigned bits) { return s >= bits ? 0 : (x & spec_mask(bits)) >> s; }
static inline uint64_t spec_sar(uint64_t x, uint64_t s, unsigned bits) {
  int64_t v = spec_sx(x, bits);
  if (s >= bits) return v < 0 ? spec_mask(bits) : 0;
  /* arithmetic shift written without relying on >> of negative values */
  uint64_t u = (uint64_t)v >> s;
  if (v < 0 && s > 0) u |= ~(uint64_t)0 << (64 - s);
  return u & spec_mask(bits);
}
static inline uint64_t spec_rotl(uint64_t x, uint64_t s, unsigned bits) {
  x &= spec_mask(bits);
  s %= bits;
  return s == 0 ? x : ((x << s) | (x >> (bits - s))) & spec_mask(bits);
}
static inline uint64_t spec_rotr(uint64_t x, uint64_t s, unsigned bits) {
  x &= spec_mask(bits);
  s %= bits;
  return s == 0 ? x : ((x >> s) | (x << (bits - s))) & spec_mask(bits);
}

/* ---- C02 / C07: ordering under the element type's signedness ---- */
static inline int spec_lt(uint64_t a, uint64_t b, unsigned bits, int is_signed) {
  return is_signed ? spec_sx(a, bits) < spec_sx(b, bits) : spec_trunc(a, bits) < spec_trunc(b, bits);
}
static inline uint64_t spec_min(uint64_t a, uint64_t b, unsigned bits, int sg) { return spec_lt(b, a, bits, sg) ? spec_trunc(b, bits) : spec_trunc(a, bits); }
static inline uint64_t spec_max(uint64_t a, uint64_t b, unsigned bits, int sg) { return spec_lt(a, b, bits, sg) ? spec_trunc(b, bits) : spec_trunc(a, bits); }
static inline uint64_t spec_clamp(uint64_t x, uint64_t lo, uint64_t hi, unsigned bits, int sg) {
  return spec_lt(x, lo, bits, sg) ? spec_trunc(lo, bits) : (spec_lt(hi, x, bits, sg) ? spec_trunc(hi, bits) : spec_trunc(x, bits));
}
static inline uint64_t spec_abs(uint64_t x, unsigned bits) { return spec_sx(x, bits) < 0 ? spec_neg(x, bits) : spec_trunc(x, bits); }
static inline uint64_t spec_neg_abs(uint64_t x, unsigned bits, int sg) {
  if (!sg) return spec_trunc(x, bits);   /* unsigned neg_abs: documented as identity on the value?  see contracts */
  return spec_sx(x, bits) < 0 ? spec_trunc(x, bits) : spec_neg(x, bits);
}

/* average(a,b) == (a+b)/2 computed without overflow, rounded toward zero.  Done in 128-bit-free form:
 * unsigned: floor((a+b)/2) via carry;  signed: trunc((a+b)/2) in 65-bit arithmetic split by parity/sign. */
static inline uint64_t spec_average_u(uint64_t a, uint64_t b, unsigned bits) {
  a &= spec_mask(bits); b &= spec_mask(bits);
  return ((a >> 1) + (b >> 1) + (a & b & 1)) & spec_mask(bits);
}
static inline uint64_t spec_average_s(uint64_t a, uint64_t b, unsigned bits) {
  int64_t x = spec_sx(a, bits), y = spec_sx(b, bits);
  /* floor((x+y)/2) without overflow */
  int64_t fl = (x >> 1) + (y >> 1) + (x & y & 1);          /* >> on int64_t: arithmetic in CBMC and GCC/Clang */
  /* x+y odd and negative => floor is one below trunc */
  int odd = (int)((x ^ y) & 1);
  /* sign of x+y when odd: the sum is negative iff fl < 0 (since sum = 2*fl+1) */
  if (odd && fl < 0) fl += 1;
  return (uint64_t)fl & spec_mask(bits);
}
/* std::midpoint(a,b): a + (b-a)/2 rounded toward a (mathematically), i.e. half the difference rounded toward zero */
static inline uint64_t spec_midpoint_u(uint64_t a, uint64_t b, unsigned bits) {
  a &= spec_mask(bits); b &= spec_mask(bits);
  return a <= b ? (a + ((b - a) >> 1)) & spec_mask(bits) : (a - ((a - b) >> 1)) & spec_mask(bits);
}
static inline uint64_t spec_midpoint_s(uint64_t a, uint64_t b, unsigned bits) {
  int64_t x = spec_sx(a, bits), y = spec_sx(b, bits);
  uint64_t ux = (uint64_t)x, uy = (uint64_t)y;
  if (x <= y) return (ux + ((uy - ux) >> 1)) & spec_mask(bits);   /* distance fits in 64 unsigned bits */
  return (ux - ((ux - uy) >> 1)) & spec_mask(bits);
}

/* ---- C05 / C14 / C15: truncating division (callers guarantee d != 0 and not MIN/-1) ---- */
static inline uint64_t spec_udiv(uint64_t n, uint64_t d, unsigned bits) { n &= spec_mask(bits); d &= spec_mask(bits); return n / d; }
static inline uint64_t spec_urem(uint64_t n, uint64_t d, unsigned bits) { n &= spec_mask(bits); d &= spec_mask(bits); return n % d; }
static inline uint64_t spec_sdiv(uint64_t n, uint64_t d, unsigned bits) { return (uint64_t)(spec_sx(n, bits) / spec_sx(d, bits)) & spec_mask(bits); }
static inline uint64_t spec_srem(uint64_t n, uint64_t d, unsigned bits) { return (uint64_t)(spec_sx(n, bits) % spec_sx(d, bits)) & spec_mask(bits); }
static inline int spec_div_defined(uint64_t n, uint64_t d, unsigned bits, int sg) {
  if (spec_trunc(d, bits) == 0) return 0;
  if (sg && spec_trunc(d, bits) == spec_mask(bits) && spec_trunc(n, bits) == ((uint64_t)1 << (bits - 1))) return 0;
  return 1;
}

/* Quotient / remainder in the form a solver can match: r equals the truncating quotient (remainder) computed by ONE of
 * several C expressions that are equal by C arithmetic -- at the lane's own width or at the promoted width, on the
 * zero-extended or the sign-extended operands.  Callers guarantee spec_div_defined(). */
#ifdef AVM_NATIVE
static inline int spec_div_ok(uint64_t r, uint64_t n, uint64_t d, unsigned bits, int sg, int rem) {
  uint64_t e = sg ? (rem ? spec_srem(n, d, bits) : spec_sdiv(n, d, bits)) : (rem ? spec_urem(n, d, bits) : spec_udiv(n, d, bits));
  return (r & spec_mask(bits)) == e;
}
#elif defined(AVM_DIV_UF)
/* the function under contract only routes to the divide instruction: same uninterpreted operation, promoted operands */
static inline int spec_div_ok(uint64_t r, uint64_t n, uint64_t d, unsigned bits, int sg, int rem) {
  n &= spec_mask(bits); d &= spec_mask(bits); r &= spec_mask(bits);
  if (bits <= 32) {
    if (sg) { int32_t a = (int32_t)spec_sx(n, bits), b = (int32_t)spec_sx(d, bits);
      return r == ((uint64_t)(uint32_t)(rem ? __CPROVER_uninterpreted_rem_i32(a, b) : __CPROVER_uninterpreted_div_i32(a, b)) & spec_mask(bits)); }
    if (bits < 32) { int32_t a = (int32_t)n, b = (int32_t)d;   /* unsigned 8/16-bit operands promote to int */
      return r == ((uint64_t)(uint32_t)(rem ? __CPROVER_uninterpreted_rem_i32(a, b) : __CPROVER_uninterpreted_div_i32(a, b)) & spec_mask(bits)); }
    { uint32_t a = (uint32_t)n, b = (uint32_t)d;
      return r == (uint64_t)(rem ? __CPROVER_uninterpreted_rem_u32(a, b) : __CPROVER_uninterpreted_div_u32(a, b)); }
  }
  if (sg) {
    /* either the signed divide instruction, or -- truncating division by definition -- the unsigned divide instruction on
     * the magnitudes with the sign of the quotient = sign(n) xor sign(d) and the sign of the remainder = sign(n)
     * (vec2x64i divides |x| by |y| with the unsigned divider and negates) */
    int64_t a = (int64_t)n, b = (int64_t)d;
    uint64_t ma = a < 0 ? (uint64_t)0 - n : n, mb = b < 0 ? (uint64_t)0 - d : d;
    uint64_t mq = rem ? __CPROVER_uninterpreted_rem_u64(ma, mb) : __CPROVER_uninterpreted_div_u64(ma, mb);
    int neg = rem ? (a < 0) : ((a < 0) != (b < 0));
    return r == (uint64_t)(rem ? __CPROVER_uninterpreted_rem_i64(a, b) : __CPROVER_uninterpreted_div_i64(a, b)) || r == (neg ? (uint64_t)0 - mq : mq);
  }
  return r == (rem ? __CPROVER_uninterpreted_rem_u64(n, d) : __CPROVER_uninterpreted_div_u64(n, d));
}
#else
static inline int spec_div_ok(uint64_t r, uint64_t n, uint64_t d, unsigned bits, int sg, int rem) {
  n &= spec_mask(bits); d &= spec_mask(bits); r &= spec_mask(bits);
  if (!sg) {
    switch (bits) {
      case 8:  { uint8_t a = (uint8_t)n, b = (uint8_t)d; return rem ? (r == (uint8_t)(a % b) || r == (uint8_t)((uint32_t)a % (uint32_t)b)) : (r == (uint8_t)(a / b) || r == (uint8_t)((uint32_t)a / (uint32_t)b)); }
      case 16: { uint16_t a = (uint16_t)n, b = (uint16_t)d; return rem ? (r == (uint16_t)(a % b) || r == (uint16_t)((uint32_t)a % (uint32_t)b)) : (r == (uint16_t)(a / b) || r == (uint16_t)((uint32_t)a / (uint32_t)b)); }
      case 32: { uint32_t a = (uint32_t)n, b = (uint32_t)d; return rem ? (r == a % b || r == (uint32_t)(n % d)) : (r == a / b || r == (uint32_t)(n / d)); }
      default: return rem ? r == n % d : r == n / d;
    }
  }
  switch (bits) {
    case 8:  { int8_t a = (int8_t)(uint8_t)n, b = (int8_t)(uint8_t)d; return r == (uint8_t)(rem ? a % b : a / b); }
    case 16: { int16_t a = (int16_t)(uint16_t)n, b = (int16_t)(uint16_t)d; return r == (uint16_t)(rem ? a % b : a / b); }
    case 32: { int32_t a = (int32_t)(uint32_t)n, b = (int32_t)(uint32_t)d; return r == (uint32_t)(rem ? a % b : a / b) || r == (uint32_t)(rem ? (int64_t)a % (int64_t)b : (int64_t)a / (int64_t)b); }
    default: { int64_t a = (int64_t)n, b = (int64_t)d; return r == (uint64_t)(rem ? a % b : a / b); }
  }
}
#endif

/* ---- C05: Euclidean witness of a quotient/remainder pair WITHOUT a multiplier.  spec_subchain(n, q, d) = n - sum_j q_j * (d << j),
 * accumulated from the top bit of q down, in 64-bit arithmetic (exact for bits <= 32: the sum is q * d < 2^64).  For 0 < d,
 *      r < d  &&  spec_subchain(n, q, d, bits) == r     <=>     q == n / d  &&  r == n % d        (lemma L5, AvelLemmas.lean;
 * CBMC checks the same C text exhaustively at 8 bits).  It is the shape in which shift-subtract dividers accumulate, so a loop
 * invariant over it is inductive by bit-vector reasoning alone (no multiplier circuit in the query). */
static inline uint64_t spec_subchain(uint64_t n, uint64_t q, uint64_t d, unsigned bits) {
  uint64_t c = n;
  for (unsigned j = bits; j-- > 0; ) c = c - (((q >> j) & 1) ? (d << j) : (uint64_t)0);
  return c;
}

/* ---- C14: Granlund-Montgomery division by an invariant unsigned integer (PLDI'94, Fig. 4.1), N = 32 / 64.
 * For 1 <= d < 2^N, l = ceil(log2 d), m' = floor(2^N (2^l - d) / d) + 1, sh1 = min(l, 1), sh2 = max(l - 1, 0):
 *      t1 = MULUH(m', n);   q = SRL(t1 + SRL(n - t1, sh1), sh2)      and      q == floor(n / d)   for all 0 <= n < 2^N.
 * The identity is lemma L3 (gm_unsigned + magic_fits + the carry-free evaluation), proved for every N in
 * /verif/lemmas/AvelLemmas.lean; CBMC proves that the constructor stores exactly (m', l - 1, d) and that div evaluates
 * exactly this expression (code-level contract): together "modulo-lemma L3".  AVEL special-cases d == 1 (l == 0). */
static inline unsigned spec_ceil_log2(uint64_t d, unsigned bits) {          /* bits - countl_zero(d - 1) */
  uint64_t x = (d - 1) & spec_mask(bits);
  unsigned w = 0;
  for (unsigned i = 0; i < bits; i++) if ((x >> i) & 1) w = i + 1;
  return w;
}
/* Granlund-Montgomery parameters computed with real (128-bit) division -- used with CONSTANT divisors only, where both the
 * constructor under contract and this reference fold to constants */
static inline uint64_t spec_gm_magic_real_u(uint64_t d, unsigned bits) {
  unsigned l = spec_ceil_log2(d, bits);
  unsigned __int128 num = ((((unsigned __int128)1) << l) - (unsigned __int128)d) << bits;
  return (uint64_t)(num / d + 1) & spec_mask(bits);
}
static inline uint64_t spec_gm_magic_real_s(uint64_t absd, unsigned bits) {
  unsigned l = spec_ceil_log2(absd, bits); if (l < 1) l = 1;
  unsigned __int128 num = ((unsigned __int128)1) << (bits + l - 1);
  return (uint64_t)(num / absd + 1) & spec_mask(bits);      /* + 1 - 2^bits, mod 2^bits */
}
/* signed: l = max(ceil(log2 |d|), 1); mp = floor(2^(N + l - 1) / |d|) + 1 - 2^N */
static inline unsigned spec_gm_l_signed(uint64_t absd, unsigned bits) { unsigned l = spec_ceil_log2(absd, bits); return l < 1 ? 1 : l; }
#if !defined(AVM_NATIVE) && defined(AVM_DIV_UF)
static inline uint32_t spec_gm_magic_i32(uint32_t absd, unsigned l) {
  return (uint32_t)(__CPROVER_uninterpreted_div_i64((int64_t)(((int64_t)0x80000000ll) << l), (int64_t)absd) - 0xffffffffll);
}
#else
static inline uint32_t spec_gm_magic_i32(uint32_t absd, unsigned l) {
  return (uint32_t)((((int64_t)0x80000000ll) << l) / (int64_t)absd - 0xffffffffll);
}
#endif
#if !defined(AVM_NATIVE) && defined(AVM_DIV_UF)
static inline uint32_t spec_gm_magic_u32(uint32_t d, unsigned l) {
  return (uint32_t)(__CPROVER_uninterpreted_div_u64(((((uint64_t)1) << l) - (uint64_t)d) << 32, (uint64_t)d) + 1);
}
#else
static inline uint32_t spec_gm_magic_u32(uint32_t d, unsigned l) {
  return (uint32_t)((((((uint64_t)1) << l) - (uint64_t)d) << 32) / (uint64_t)d + 1);
}
#endif
static inline int spec_gm_div_u32_ok(uint32_t q, uint32_t r, uint32_t n, uint32_t m, uint32_t sh2, uint32_t d) {
  if (d == 1) return q == n && r == 0;
  uint32_t t1 = (uint32_t)(AVM_MUL_u64((uint64_t)m, (uint64_t)n) >> 32);
  uint32_t qq = (t1 + ((n - t1) >> 1)) >> sh2;
  return q == qq && r == (uint32_t)(n - AVM_MUL_u32(qq, d));
}
/* signed variant (PLDI'94 Fig. 5.2) as AVEL evaluates it: mp = m - 2^N (N-bit signed), sh = l - 1, dsign = d >> (N - 1):
 *      q0 = n + MULSH(mp, n);  q1 = SRA(q0, sh) - XSIGN(n);  q = EOR(q1, dsign) - dsign;  r = n - q * d      (all mod 2^N).
 * That this is trunc(n / d) is lemma L4 (gm_signed_core / gm_signed_one in AvelLemmas.lean). */
static inline int spec_gm_div_i32_ok(uint32_t q, uint32_t r, uint32_t n, uint32_t mp, uint32_t sh, uint32_t dsign, uint32_t d) {
  int64_t prod = AVM_MUL_i64((int64_t)(int32_t)mp, (int64_t)(int32_t)n);
  uint32_t q0 = (uint32_t)((int64_t)(int32_t)n + (prod >> 32));
  uint32_t q1 = (uint32_t)((int32_t)q0 >> sh) - (uint32_t)((int32_t)n >> 31);
  uint32_t qq = (q1 ^ dsign) - dsign;
  return q == qq && r == (uint32_t)((int32_t)n - AVM_MUL_i32((int32_t)qq, (int32_t)d));
}
static inline int spec_gm_div_i64_ok(uint64_t q, uint64_t r, uint64_t n, uint64_t mp, uint64_t sh, uint64_t dsign, uint64_t d) {
  int64_t hi = (int64_t)(AVM_MUL_i128((__int128)(int64_t)mp, (__int128)(int64_t)n) >> 64);
  uint64_t q0 = n + (uint64_t)hi;
  uint64_t q1 = (uint64_t)((int64_t)q0 >> sh) - (uint64_t)((int64_t)n >> 63);
  uint64_t qq = (q1 ^ dsign) - dsign;
  return q == qq && r == n - (uint64_t)AVM_MUL_i64((int64_t)qq, (int64_t)d);
}
static inline uint32_t spec_shr_u32(uint32_t x, uint32_t c) { return c >= 32 ? 0u : x >> c; }
/* one lane of a vector Denominator<vecNx32u>: fields m, sh1 (0 / 1, a mask lane), sh2, d -- no d == 1 special case there
 * (sh1 = min(l, 1) encodes it); products through the 64-bit multiplier the pmuludq / pmulld models use */
static inline int spec_gm_div_u32_lane_ok(uint32_t q, uint32_t r, uint32_t n, uint32_t m, _Bool sh1, uint32_t sh2, uint32_t d) {
  uint32_t t1 = (uint32_t)(AVM_MUL_u64((uint64_t)m, (uint64_t)n) >> 32);
  uint32_t qq = spec_shr_u32(t1 + (sh1 ? ((n - t1) >> 1) : (n - t1)), sh2);
  return q == qq && (r == (uint32_t)(n - (uint32_t)AVM_MUL_u64((uint64_t)qq, (uint64_t)d)) || r == (uint32_t)(n - (uint32_t)AVM_MUL_u64((uint64_t)d, (uint64_t)qq)));
}
/* high half of a 64 x 64 product from four 32 x 32 partial products with the carry of the middle column (schoolbook):
 * lemma L6 (mulhi_partial, AvelLemmas.lean): equals floor(a * b / 2^64).  Portable branch of Denominator<uint64_t>::div. */
static inline uint64_t spec_mulhi64_pp(uint64_t a, uint64_t b) {
  uint64_t a_lo = (uint32_t)a, a_hi = a >> 32, b_lo = (uint32_t)b, b_hi = b >> 32;
  uint64_t hh = AVM_MUL_u64(a_hi, b_hi), hl = AVM_MUL_u64(a_hi, b_lo), lh = AVM_MUL_u64(b_hi, a_lo), ll = AVM_MUL_u64(a_lo, b_lo);
  uint64_t carry = ((uint64_t)(uint32_t)hl + (uint64_t)(uint32_t)lh + (ll >> 32)) >> 32;
  return hh + (hl >> 32) + (lh >> 32) + carry;
}
static inline int spec_gm_div_u64_pp_ok(uint64_t q, uint64_t r, uint64_t n, uint64_t m, uint64_t sh2, uint64_t d) {
  if (d == 1) return q == n && r == 0;
  uint64_t t1 = spec_mulhi64_pp(m, n);
  uint64_t qq = (t1 + ((n - t1) >> 1)) >> sh2;
  return q == qq && r == n - AVM_MUL_u64(qq, d);
}
/* one lane of a vector Denominator<vecNx32i>: fields mp, d_sign, sh, d.  The signed high product either from the signed
 * 32 x 32 -> 64 multiplier (pmuldq) or from the unsigned one (pmuludq) with the standard correction
 * mulhs(x, y) = mulhu(x, y) - (x < 0 ? y : 0) - (y < 0 ? x : 0)  (mod 2^32; lemma L7, AvelLemmas) */
static inline uint32_t spec_sar_u32(uint32_t x, uint32_t c) { return c >= 32 ? ((x & 0x80000000u) ? 0xffffffffu : 0u) : (uint32_t)((int32_t)x >> c); }
static inline int spec_gm_div_i32_lane_ok(uint32_t q, uint32_t r, uint32_t n, uint32_t mp, uint32_t dsign, uint32_t sh, uint32_t d) {
  uint32_t ts = (uint32_t)(uint64_t)(AVM_MUL_i64((int64_t)(int32_t)mp, (int64_t)(int32_t)n) >> 32);
  uint32_t tu = (uint32_t)(AVM_MUL_u64((uint64_t)mp, (uint64_t)n) >> 32) - ((mp & 0x80000000u) ? n : 0u) - ((n & 0x80000000u) ? mp : 0u);
  int ok = 0;
  for (int form = 0; form < 2; form++) {
    uint32_t t = form ? tu : ts;
    uint32_t q0 = n + t;
    uint32_t q1 = spec_sar_u32(q0, sh) - (uint32_t)((int32_t)n >> 31);
    uint32_t qq = (q1 ^ dsign) - dsign;
    ok = ok || (q == qq && (r == (uint32_t)(n - (uint32_t)AVM_MUL_u64((uint64_t)qq, (uint64_t)d)) || r == (uint32_t)(n - (uint32_t)AVM_MUL_u64((uint64_t)d, (uint64_t)qq))));
  }
  return ok;
}
/* one lane of a vector Denominator<vecNx64u> (GCC / Clang branches: the high product per lane through the scalar 128-bit
 * multiplier).  q * d either by the 64-bit multiplier (vpmullq) or by the three-pmuludq emulation, lemma L1:
 * lo(q) lo(d) + ((hi(d) lo(q) + hi(q) lo(d)) << 32) */
static inline uint64_t spec_shr_u64(uint64_t x, uint64_t c) { return c >= 64 ? 0ull : x >> c; }
static inline int spec_gm_div_u64_lane_ok(uint64_t q, uint64_t r, uint64_t n, uint64_t m, _Bool sh1, uint64_t sh2, uint64_t d) {
  uint64_t t1 = (uint64_t)(AVM_MUL_u128((unsigned __int128)m, (unsigned __int128)n) >> 64);
  uint64_t qq = spec_shr_u64(t1 + (sh1 ? ((n - t1) >> 1) : (n - t1)), sh2);
  uint64_t ql = qq & 0xffffffffull, qh = qq >> 32, dl = d & 0xffffffffull, dh = d >> 32;
  uint64_t p3 = AVM_MUL_u64(ql, dl) + (((AVM_MUL_u64(dh, ql) + AVM_MUL_u64(qh, dl)) & 0xffffffffull) << 32);
  return q == qq && (r == n - AVM_MUL_u64(qq, d) || r == n - AVM_MUL_u64(d, qq) || r == n - p3);
}
/* one lane of a vector Denominator<vecNx64i>: signed expression, the signed high product per lane through the scalar 128-bit
 * multiplier; q * d as for the unsigned lanes (the low 64 bits of a product do not depend on signedness) */
static inline uint64_t spec_sar_u64(uint64_t x, uint64_t c) { return c >= 64 ? ((x >> 63) ? ~0ull : 0ull) : (uint64_t)((int64_t)x >> c); }
static inline int spec_gm_div_i64_lane_ok(uint64_t q, uint64_t r, uint64_t n, uint64_t mp, uint64_t dsign, uint64_t sh, uint64_t d) {
  uint64_t t = (uint64_t)(AVM_MUL_i128((__int128)(int64_t)mp, (__int128)(int64_t)n) >> 64);
  uint64_t q0 = n + t;
  uint64_t q1 = spec_sar_u64(q0, sh) - (uint64_t)((int64_t)n >> 63);
  uint64_t qq = (q1 ^ dsign) - dsign;
  uint64_t ql = qq & 0xffffffffull, qh = qq >> 32, dl = d & 0xffffffffull, dh = d >> 32;
  uint64_t p3 = AVM_MUL_u64(ql, dl) + (((AVM_MUL_u64(dh, ql) + AVM_MUL_u64(qh, dl)) & 0xffffffffull) << 32);
  return q == qq && (r == n - AVM_MUL_u64(qq, d) || r == n - AVM_MUL_u64(d, qq) || r == n - p3);
}
static inline int spec_gm_div_u64_ok(uint64_t q, uint64_t r, uint64_t n, uint64_t m, uint64_t sh2, uint64_t d) {
  if (d == 1) return q == n && r == 0;
  uint64_t t1 = (uint64_t)(AVM_MUL_u128((unsigned __int128)m, (unsigned __int128)n) >> 64);
  uint64_t qq = (t1 + ((n - t1) >> 1)) >> sh2;
  return q == qq && r == n - AVM_MUL_u64(qq, d);
}
#endif
