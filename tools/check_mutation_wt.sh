#!/bin/bash
# usage: check_mutation_wt.sh <scratch worktree of /repo> <patch.diff> <property> [extra run.py args]
# Same check as check_mutation.sh, but against a scratch worktree (AVEL_REPO) with its own extraction cache, so that several
# seeded changes can be checked at the same time and /repo stays untouched.  Prints exit code and VIOLATION lines.
WT=$1; P=$2; PROP=$3; shift 3
cd /verif
git -C $WT checkout -q -- . ; git -C $WT checkout -q --detach $(git -C /repo rev-parse HEAD) ; git -C $WT diff --quiet || { echo "$WT not clean"; exit 3; }
git -C $WT apply $P || { echo "patch does not apply"; exit 3; }
LOG=$WT/_check_$PROP.log
AVEL_REPO=$WT VERIF_CACHE=$WT/_verif_cache VERIF_REPLAYS=$WT/_replays VERIF_SCRATCH=$WT/_scratch python3 run.py --property $PROP --tier quick --no-evidence "$@" > $LOG 2>&1; rc=$?
git -C $WT checkout -q -- .
echo "exit=$rc" | tee -a $LOG; grep -E "quick:" $LOG | cut -c1-260; grep -E "^VIOLATION|^KNOWN|^UNDECIDED|^EXTRACTION|failed:" $LOG | cut -c1-260 | head -10
