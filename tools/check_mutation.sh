#!/bin/bash
# usage: check_mutation.sh <patch.diff> <property> [extra run.py args]   -- applies the patch to /repo, runs the quick check, undoes it
P=$1; PROP=$2; shift 2
cd /verif
git -C /repo diff --quiet || { echo "/repo not clean"; exit 3; }
git -C /repo apply $P || { echo "patch does not apply to /repo"; exit 3; }
python3 run.py --property $PROP --tier quick --no-evidence "$@" > /tmp/check_mut.log 2>&1; rc=$?
git -C /repo checkout -- .
echo "exit=$rc"; grep -E "^VIOLATION|^KNOWN|quick:" /tmp/check_mut.log | cut -c1-200 | head -8
