#!/bin/bash
# usage: confirm_mutation.sh <mutation dir (patch.diff demo.cpp build.txt meta.json)> <original worktree path used in build.txt>
# Confirms in a scratch worktree (outside /repo and /verif): demo passes on the clean tree, fails with the patch, and the
# unedited test-suite passes with the patch.  Prints CONFIRMED or the reason it is not.
set -u
M=$1; ORIG=$2; WT=${WT:-/tmp/wt_confirm}; TAG=$(basename $WT)
if [ ! -d $WT ]; then
  git -C /repo worktree add -f $WT HEAD > /dev/null 2>&1
  mkdir -p $WT/external; [ -d $WT/external/googletest/googletest ] || cp -r /repo/external/googletest $WT/external/ 2>/dev/null
  [ -d $WT/external/benchmark ] || cp -r /repo/external/benchmark $WT/external/ 2>/dev/null
  cmake -S $WT -B $WT/_build -G Ninja -DCMAKE_BUILD_TYPE=RelWithDebInfo -DAVEL_BUILD_TESTS=ON -DFETCHCONTENT_SOURCE_DIR_GOOGLETEST=/usr/src/googletest > $WT/_cmake.log 2>&1 || { echo "cmake configure failed"; tail -5 $WT/_cmake.log; exit 2; }
fi
git -C $WT checkout -q -- . ; git -C $WT checkout -q --detach $(git -C /repo rev-parse HEAD) 2>/dev/null
CMD=$(grep -v '^\s*$' $M/build.txt | grep -E "g\+\+|clang" | head -1 | sed "s#$ORIG#$WT#g")
[ -z "$CMD" ] && { echo "no build command"; exit 2; }
cp $M/demo.cpp /tmp/confirm_demo_$TAG.cpp
CMD=$(echo "$CMD" | sed -E "s#[^ ]*demo\.cpp#/tmp/confirm_demo_$TAG.cpp#; s#-o +[^ ]+#-o /tmp/confirm_demo_$TAG#")
echo "$CMD" | grep -q -- "-o " || CMD="$CMD -o /tmp/confirm_demo_$TAG"
eval "$CMD" > /tmp/confirm_build_$TAG.log 2>&1 || { echo "demo does not build on the clean tree"; tail -5 /tmp/confirm_build_$TAG.log; exit 2; }
/tmp/confirm_demo_$TAG > /tmp/confirm_run_$TAG.log 2>&1; r0=$?
[ $r0 -eq 0 ] || { echo "demo FAILS on the clean tree (exit $r0)"; tail -3 /tmp/confirm_run_$TAG.log; exit 2; }
git -C $WT apply $M/patch.diff || { echo "patch does not apply"; exit 2; }
eval "$CMD" > /tmp/confirm_build_$TAG.log 2>&1 || { echo "demo does not build with the patch"; git -C $WT checkout -q -- .; exit 2; }
/tmp/confirm_demo_$TAG > /tmp/confirm_run_$TAG.log 2>&1; r1=$?
[ $r1 -ne 0 ] || { echo "demo PASSES with the patch"; git -C $WT checkout -q -- .; exit 2; }
cmake --build $WT/_build -j8 > $WT/_build.log 2>&1 || { echo "library/test build fails with the patch"; tail -5 $WT/_build.log; git -C $WT checkout -q -- .; exit 2; }
$WT/_build/tests/AVEL_TESTS > $WT/_tests.log 2>&1; rt=$?
np=$(grep -oE "PASSED +\] [0-9]+ tests" $WT/_tests.log | grep -oE "[0-9]+" | tail -1)
git -C $WT checkout -q -- .
[ $rt -eq 0 ] || { echo "test-suite FAILS with the patch"; grep -E "FAILED|PASSED" $WT/_tests.log | tail -3; exit 2; }
echo "CONFIRMED demo clean=pass mutated=exit$r1 tests=$np passed"
