#!/bin/bash
# usage: new_mut_wt.sh <name>   -- creates a scratch worktree of /repo's HEAD at /tmp/mut/<name>, configured for the test-suite build
set -eu
WT=/tmp/mut/$1
mkdir -p /tmp/mut
git -C /repo worktree add -f --detach $WT HEAD > /dev/null 2>&1
mkdir -p $WT/external
[ -d $WT/external/googletest/googletest ] || cp -r /repo/external/googletest $WT/external/ 2>/dev/null || true
cmake -S $WT -B $WT/_build -G Ninja -DCMAKE_BUILD_TYPE=RelWithDebInfo -DAVEL_BUILD_TESTS=ON -DFETCHCONTENT_SOURCE_DIR_GOOGLETEST=/usr/src/googletest > $WT/_cmake.log 2>&1 || { echo "cmake configure failed"; tail -5 $WT/_cmake.log; exit 2; }
echo $WT
