#!/usr/bin/env python3
"""keep_mutation.py <src dir> <id> <property> <detected: yes|no> <checks run / notes>  -- stores a confirmed seeded change under /verif/seeded/<id>/"""
import sys, os, json, shutil
src, mid, prop, detected, notes = sys.argv[1:6]
dst = os.path.join('/verif/seeded', mid)
os.makedirs(dst, exist_ok=True)
for f in ('patch.diff', 'demo.cpp', 'build.txt'):
    shutil.copy(os.path.join(src, f), os.path.join(dst, f))
m = json.load(open(os.path.join(src, 'meta.json')))
meta = {'id': mid, 'property': prop, 'breaks': m.get('function'), 'file': m.get('file'), 'needs_to_manifest': m.get('needs'),
        'confirmed_by_me': 'tools/confirm_mutation.sh in a scratch worktree (/tmp/wt_confirm): demo passes on the clean tree, fails with the patch; the unedited 1459-test suite passes with the patch',
        'checked_with': 'tools/check_mutation.sh %s/patch.diff %s  (git apply to /repo, python3 run.py --property %s --tier quick, git checkout -- .)' % (dst, prop, prop),
        'detected': detected, 'notes': notes, 'origin': 'fresh sub-agent given only the property text and its own worktree'}
json.dump(meta, open(os.path.join(dst, 'meta.json'), 'w'), indent=1)
print('kept', dst)
