#!/usr/bin/env python3
"""regenerates MANIFEST.json from the list of claimed properties below"""
import json, os
ROOT = os.path.dirname(os.path.dirname(os.path.abspath(__file__)))
props = [json.loads(l) for l in open(os.path.join(ROOT, 'properties.jsonl'))]
CLAIMED = json.load(open(os.path.join(ROOT, 'tools', 'claimed.json')))
man = {
    "version": 1,
    "setup_cmd": "python3 run.py --setup",
    "hooks": {"guard": "AVEL_VERIF",
              "enable": "no source hooks: CBMC's C++ front end cannot read AVEL, so contracts are attached by function identity to the C text that is extracted mechanically from /repo on every run (DESIGN.md sections 3.1, 6); nothing in /repo is guarded",
              "baseline_off_cmd": "cmake --build /repo/_build -j16 && /repo/_build/tests/AVEL_TESTS",
              "source_commits": [], "add_only": True},
    "engines": [{"name": "cbmc-contracts", "path": "run.py", "serves_properties": sorted(CLAIMED),
                 "kind_free_text": "clang 14 typed AST -> C (extract/cxx2c.py); contract table (contracts/families.py) over spec functions (spec/); x86 instruction contracts (models/gen_x86.py, validated on this CPU by models/validate.py); goto-instrument --dfcc --enforce-contract per function; cbmc 6.11 with cadical / kissat; counterexamples replayed on the real C++ (vlib/replay.py)"}],
    "checks": [], "not_applicable": [],
    "notes": "exit 0 = all obligations discharged (open known findings print KNOWN-FINDING lines); exit 1 = VIOLATION; exit 2 = undecided (timeout, missing model, extraction problem) -- never a violation. See DESIGN.md.",
}
for p in props:
    pid = p['id']
    if pid in CLAIMED:
        c = CLAIMED[pid]
        man['checks'].append({
            "property_id": pid,
            "quick_cmd": "python3 run.py --property %s --tier quick" % pid,
            "thorough_cmd": "python3 run.py --property %s --tier thorough" % pid,
            "evidence_file": "evidence/%s.json" % pid,
            "replay_cmd_template": "python3 run.py --replay {path}",
            "engine": "cbmc-contracts",
            "level_claimed": {"category": "proof", "text": c['text'], "design_ref": "DESIGN.md section 4, " + pid},
            "level_note": c['note'],
            "technique": "contract-based deductive verification: CBMC code contracts (DFCC) enforced per function on C extracted mechanically from the C++ sources"})
    else:
        man['not_applicable'].append({"property_id": pid, "reason": NA.get(pid) if (NA := json.load(open(os.path.join(ROOT, 'tools', 'not_applicable.json')))) and pid in NA else "check not yet built (work in progress; see DESIGN.md)"})
json.dump(man, open(os.path.join(ROOT, 'MANIFEST.json'), 'w'), indent=1)
print('claimed:', sorted(CLAIMED), 'not applicable:', [x['property_id'] for x in man['not_applicable']])
