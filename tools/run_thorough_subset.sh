#!/bin/bash
# runs the thorough tier of the given properties one after the other (used for background validation runs)
for p in "$@"; do
  s0=$(date +%s)
  python3 run.py --property $p --tier thorough > thorough_$p.log 2>&1
  echo "$p exit=$? wall=$(( $(date +%s)-s0 ))s $(grep -E "thorough:" thorough_$p.log | tail -1)"
done
