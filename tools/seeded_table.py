#!/usr/bin/env python3
"""prints the DESIGN.md table of seeded changes from /verif/seeded/*/meta.json"""
import json, glob, os, re
rows = []
for d in sorted(glob.glob(os.path.join(os.path.dirname(os.path.dirname(os.path.abspath(__file__))), 'seeded', '*'))):
    m = json.load(open(os.path.join(d, 'meta.json')))
    needs = re.sub(r'\s+', ' ', m.get('needs_to_manifest') or '')[:230]
    notes = re.sub(r'\s+', ' ', m.get('notes') or '')
    fam = re.search(r'\((.*?)\)', notes)
    caught = 'yes' if m.get('detected') == 'yes' else '**no**'
    by = ''
    mm = re.search(r'counterexample replayed on the real code \((.*?)\)|no-failing-input-found \((.*?)\)', notes)
    if mm:
        by = (mm.group(1) or mm.group(2) or '')[:150]
    rows.append('| %s | %s | `%s` — %s | %s | %s%s |' % (m['id'], m['property'], (m.get('breaks') or '')[:90].replace('|', '\\|'), needs.replace('|', '\\|'),
                                              caught, by.replace('|', '\\|'), (' — ' + m['history']) if m.get('history') else ''))
print('| id | property | change (what it needs to manifest) | caught by the quick check | failing obligation(s) / history |')
print('|---|---|---|---|---|')
print('\n'.join(rows))
