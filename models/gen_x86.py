"""gen_x86.py -- instruction contracts for the x86 intrinsics AVEL calls (TRUSTED base, DESIGN.md 3.3).

model_for(name) -> Model | None.  Models are generated from schema tables (lane-wise op x element type x
register width x {plain, mask_, maskz_}); irregular ones are written by hand below.  The semantics is the
Intel SDM operation pseudocode.  Every model is executable C over struct m128/m256/m512 and is compiled
both by goto-cc (verification) and natively (differential validation against the real instruction,
models/validate.py).
"""
import re

REG = {128: 'm128', 256: 'm256', 512: 'm512'}
UT = {8: 'uint8_t', 16: 'uint16_t', 32: 'uint32_t', 64: 'uint64_t'}
ST = {8: 'int8_t', 16: 'int16_t', 32: 'int32_t', 64: 'int64_t'}
ONES = {8: '0xffu', 16: '0xffffu', 32: '0xffffffffu', 64: '0xffffffffffffffffull'}


def ktype(n):
    return 'uint8_t' if n <= 8 else 'uint16_t' if n <= 16 else 'uint32_t' if n <= 32 else 'uint64_t'


class Model:
    def __init__(self, name, ret, args, body, deps=(), imm=(), mem=False, note=None, novalidate=False):
        self.name = name
        self.ret = ret
        self.args = args          # [(ctype, name)]
        self.body = body
        self.deps = list(deps)
        self.imm = list(imm)      # indices of immediate (compile-time constant) arguments
        self.mem = mem
        self.note = note
        self.novalidate = novalidate

    def text(self):
        return 'static inline %s %s(%s) {\n%s}\n' % (self.ret, self.name, ', '.join('%s %s' % a for a in self.args) or 'void', self.body)


HELPERS = {}


def helper(name, code, deps=()):
    HELPERS[name] = (code, list(deps))


helper('avm_clz', '''static inline unsigned avm_clz(uint64_t x, unsigned bits) {
  unsigned n = 0;
  for (unsigned i = 0; i < bits; i++) { if ((x >> (bits - 1 - i)) & 1) break; n++; }
  return n;
}
''')
helper('avm_ctz', '''static inline unsigned avm_ctz(uint64_t x, unsigned bits) {
  unsigned n = 0;
  for (unsigned i = 0; i < bits; i++) { if ((x >> i) & 1) break; n++; }
  return n;
}
''')
helper('avm_popcnt', '''static inline unsigned avm_popcnt(uint64_t x, unsigned bits) {
  unsigned n = 0;
  for (unsigned i = 0; i < bits; i++) n += (unsigned)((x >> i) & 1);
  return n;
}
''')
helper('avm_fcmp32', '''static inline int avm_fcmp32(float a, float b, int imm) {
  int un = (a != a) || (b != b);
  switch (imm & 15) {
    case 0: return a == b;          case 1: return a < b;           case 2: return a <= b;        case 3: return un;
    case 4: return !(a == b);       case 5: return !(a < b);        case 6: return !(a <= b);     case 7: return !un;
    case 8: return un || a == b;    case 9: return !(a >= b);       case 10: return !(a > b);     case 11: return 0;
    case 12: return !un && a != b;  case 13: return a >= b;         case 14: return a > b;        default: return 1;
  }
}
''')
helper('avm_fcmp64', '''static inline int avm_fcmp64(double a, double b, int imm) {
  int un = (a != a) || (b != b);
  switch (imm & 15) {
    case 0: return a == b;          case 1: return a < b;           case 2: return a <= b;        case 3: return un;
    case 4: return !(a == b);       case 5: return !(a < b);        case 6: return !(a <= b);     case 7: return !un;
    case 8: return un || a == b;    case 9: return !(a >= b);       case 10: return !(a > b);     case 11: return 0;
    case 12: return !un && a != b;  case 13: return a >= b;         case 14: return a > b;        default: return 1;
  }
}
''')
helper('avm_icmp', '''static inline int avm_icmp(int64_t a, int64_t b, int imm) {
  switch (imm & 7) { case 0: return a == b; case 1: return a < b; case 2: return a <= b; case 3: return 0;
                     case 4: return a != b; case 5: return a >= b; case 6: return a > b; default: return 1; }
}
''')
helper('avm_ucmp', '''static inline int avm_ucmp(uint64_t a, uint64_t b, int imm) {
  switch (imm & 7) { case 0: return a == b; case 1: return a < b; case 2: return a <= b; case 3: return 0;
                     case 4: return a != b; case 5: return a >= b; case 6: return a > b; default: return 1; }
}
''')
# float -> int32 conversions with the x86 "integer indefinite" result
helper('avm_cvt_f2i32', '''static inline uint32_t avm_cvtt_f32_i32(float f) {
  if (!(f > -2147483904.0f && f < 2147483648.0f)) return 0x80000000u;
  return (uint32_t)(int32_t)f;
}
static inline uint32_t avm_cvt_f32_i32(float f) {
  if (f != f) return 0x80000000u;
  float r = nearbyintf(f);
  if (!(r >= -2147483648.0f && r < 2147483648.0f)) return 0x80000000u;
  return (uint32_t)(int32_t)r;
}
static inline uint32_t avm_cvtt_f64_i32(double f) {
  if (!(f > -2147483649.0 && f < 2147483648.0)) return 0x80000000u;
  return (uint32_t)(int32_t)f;
}
static inline uint32_t avm_cvt_f64_i32(double f) {
  if (f != f) return 0x80000000u;
  double r = nearbyint(f);
  if (!(r >= -2147483648.0 && r < 2147483648.0)) return 0x80000000u;
  return (uint32_t)(int32_t)r;
}
static inline uint64_t avm_cvtt_f64_i64(double f) {
  if (!(f >= -9223372036854775808.0 && f < 9223372036854775808.0)) return 0x8000000000000000ull;
  return (uint64_t)(int64_t)f;
}
static inline uint64_t avm_cvt_f64_i64(double f) {
  if (f != f) return 0x8000000000000000ull;
  double r = nearbyint(f);
  if (!(r >= -9223372036854775808.0 && r < 9223372036854775808.0)) return 0x8000000000000000ull;
  return (uint64_t)(int64_t)r;
}
static inline uint32_t avm_cvtt_f64_u32(double f) {
  if (!(f > -1.0 && f < 4294967296.0)) return 0xffffffffu;
  return (uint32_t)f;
}
''')


def L(b, v, i='i'):
    return 'AVM_L%d(%s, %s)' % (b, v, i)


def lane_decls(b, kind, names):
    out = []
    for n, v in names:
        out.append('%s %s = %s;' % (UT[b], n, L(b, v)))
        if kind == 'i':
            out.append('%s s%s = (%s)%s;' % (ST[b], n, ST[b], n))
        if kind == 'f':
            out.append('%s f%s = %s(%s);' % ('float' if b == 32 else 'double', n, 'avm_u2f' if b == 32 else 'avm_u2d', n))
    return ' '.join(out)


def fstore(b, e):
    return '%s(%s)' % ('avm_f2u' if b == 32 else 'avm_d2u', e)


# ---- lane-wise operation table: op -> (arity, expr by kind, allowed bit widths) -------------------
# expressions use x,y,z (unsigned lanes), sx,sy (signed), fx,fy,fz (float); B = bits; ONES; U/S types
def OP(ar, **kw):
    return (ar, kw)


INT_OPS = {
    'add': OP(2, u='x + y'), 'sub': OP(2, u='x - y'),
    'mullo': OP(2, u='AVM_MUL_u64((uint64_t)x, (uint64_t)y)'),
    'mullox': OP(2, u='AVM_MUL_u64((uint64_t)x, (uint64_t)y)'),
    'mulhi': OP(2, i='(uint32_t)(((int32_t)sx * (int32_t)sy) >> 16)', u='((uint32_t)x * (uint32_t)y) >> 16'),
    'min': OP(2, i='sx < sy ? x : y', u='x < y ? x : y'), 'max': OP(2, i='sx > sy ? x : y', u='x > y ? x : y'),
    'avg': OP(2, u='((uint32_t)x + (uint32_t)y + 1u) >> 1'),
    'adds': OP(2, i='((int32_t)sx + (int32_t)sy > SMAX ? (U)SMAX : ((int32_t)sx + (int32_t)sy < SMIN ? (U)SMIN : (U)(x + y)))',
               u='((uint32_t)x + (uint32_t)y > UMAX ? (U)UMAX : (U)(x + y))'),
    'subs': OP(2, i='((int32_t)sx - (int32_t)sy > SMAX ? (U)SMAX : ((int32_t)sx - (int32_t)sy < SMIN ? (U)SMIN : (U)(x - y)))',
               u='(x < y ? (U)0 : (U)(x - y))'),
    'cmpeq': OP(2, u='x == y ? ONES : 0'), 'cmpgt': OP(2, i='sx > sy ? ONES : 0'), 'cmplt': OP(2, i='sx < sy ? ONES : 0'),
    'abs': OP(1, i='sx < 0 ? (U)(0 - x) : x'),
    'sign': OP(2, i='sy < 0 ? (U)(0 - x) : (sy == 0 ? (U)0 : x)'),
    'sllv': OP(2, u='y >= B ? (U)0 : (U)((uint64_t)x << y)'),
    'srlv': OP(2, u='y >= B ? (U)0 : (U)(x >> y)'),
    'srav': OP(2, u='y >= B ? ((x >> (B - 1)) ? (U)ONES : (U)0) : (U)(((x >> (B - 1)) && y) ? ((x >> y) | (U)(ONES << (B - y))) : (x >> y))'),
    'rolv': OP(2, u='(y % B) == 0 ? x : (U)((x << (y % B)) | (x >> (B - (y % B))))'),
    'rorv': OP(2, u='(y % B) == 0 ? x : (U)((x >> (y % B)) | (x << (B - (y % B))))'),
    'shldv': OP(3, u='(U)((((uint64_t)x << B) | (uint64_t)y) << (z & (B - 1)) >> B)'),
    'shrdv': OP(3, u='(U)((((uint64_t)y << B) | (uint64_t)x) >> (z & (B - 1)))'),
    'lzcnt': OP(1, u='avm_clz(x, B)'), 'popcnt': OP(1, u='avm_popcnt(x, B)'),
    'and': OP(2, u='x & y'), 'or': OP(2, u='x | y'), 'xor': OP(2, u='x ^ y'), 'andnot': OP(2, u='(U)~x & y'),
    'mov': OP(1, u='x'),
}
FLT_OPS = {
    'add': OP(2, f='FADD(fx, fy)'), 'sub': OP(2, f='FSUB(fx, fy)'), 'mul': OP(2, f='FMUL(fx, fy)'), 'div': OP(2, f='FDIV(fx, fy)'),
    'sqrt': OP(1, f='SQRT(fx)'), 'min': OP(2, f='fx < fy ? fx : fy'), 'max': OP(2, f='fx > fy ? fx : fy'),
    'mov': OP(1, u='x'),
    'and': OP(2, u='x & y'), 'or': OP(2, u='x | y'), 'xor': OP(2, u='x ^ y'), 'andnot': OP(2, u='(U)~x & y'),
    'abs': OP(1, u='x & (U)(ONES >> 1)'),
    'cmpeq': OP(2, f='fx == fy ? ONES : 0', raw=1), 'cmplt': OP(2, f='fx < fy ? ONES : 0', raw=1),
    'cmple': OP(2, f='fx <= fy ? ONES : 0', raw=1), 'cmpgt': OP(2, f='fx > fy ? ONES : 0', raw=1),
    'cmpge': OP(2, f='fx >= fy ? ONES : 0', raw=1), 'cmpneq': OP(2, f='!(fx == fy) ? ONES : 0', raw=1),
    'cmpunord': OP(2, f='(fx != fx || fy != fy) ? ONES : 0', raw=1), 'cmpord': OP(2, f='(fx == fx && fy == fy) ? ONES : 0', raw=1),
    'cmpnlt': OP(2, f='!(fx < fy) ? ONES : 0', raw=1), 'cmpnle': OP(2, f='!(fx <= fy) ? ONES : 0', raw=1),
}
ALLOWED_BITS = {'mullo': (16, 32, 64), 'mullox': (64,), 'mulhi': (16,), 'avg': (8, 16), 'adds': (8, 16), 'subs': (8, 16),
                'sign': (8, 16, 32), 'sllv': (16, 32, 64), 'srlv': (16, 32, 64), 'srav': (16, 32, 64),
                'rolv': (32, 64), 'rorv': (32, 64), 'shldv': (16, 32, 64), 'shrdv': (16, 32, 64), 'lzcnt': (32, 64),
                'cmplt': (8, 16, 32)}


def subst(expr, b):
    smax = {8: '127', 16: '32767', 32: '2147483647', 64: '9223372036854775807ll'}[b]
    smin = {8: '(-128)', 16: '(-32768)', 32: '(-2147483647-1)', 64: '(-9223372036854775807ll-1)'}[b]
    e = expr
    e = re.sub(r'\bONES\b', ONES[b], e)
    e = re.sub(r'\bSMAX\b', smax, e)
    e = re.sub(r'\bSMIN\b', smin, e)
    e = re.sub(r'\bUMAX\b', ONES[b], e)
    e = re.sub(r'\bB\b', str(b), e)
    e = re.sub(r'\bU\b', UT[b], e)
    e = re.sub(r'\bS\b', ST[b], e)
    e = re.sub(r'\bFADD\b', 'AVM_FADD_f32' if b == 32 else 'AVM_FADD_f64', e)
    e = re.sub(r'\bFSUB\b', 'AVM_FSUB_f32' if b == 32 else 'AVM_FSUB_f64', e)
    e = re.sub(r'\bFMUL\b', 'AVM_FMUL_f32' if b == 32 else 'AVM_FMUL_f64', e)
    e = re.sub(r'\bFDIV\b', 'AVM_FDIV_f32' if b == 32 else 'AVM_FDIV_f64', e)
    e = re.sub(r'\bSQRT\b', 'avm_sqrtf' if b == 32 else 'avm_sqrt', e)
    return e


def deps_of(expr):
    return [h for h in ('avm_clz', 'avm_popcnt', 'avm_ctz') if h in expr]


def lanewise(name, W, b, kind, arity, expr, masking=None, raw=False):
    n = W // b
    R = REG[W]
    vs = ['a', 'b', 'c'][:arity]
    args = [(R, v) for v in vs]
    lanes = list(zip(['x', 'y', 'z'], vs))
    k = kind if kind in ('i', 'f') else 'u'
    decl = lane_decls(b, k, lanes)
    e = subst(expr, b)
    isf = (k == 'f') and not raw
    val = fstore(b, e) if isf else '(%s)(%s)' % (UT[b], e)
    if masking == 'mask':
        args = [(R, 'src'), (ktype(n), 'k')] + args
        val = '((((uint64_t)k >> i) & 1) ? %s : %s)' % (val, L(b, 'src'))
    elif masking == 'maskz':
        args = [(ktype(n), 'k')] + args
        val = '((((uint64_t)k >> i) & 1) ? %s : (%s)0)' % (val, UT[b])
    body = '  %s r = {{0}};\n  for (int i = 0; i < %d; i++) { %s AVM_S%d(r, i, %s); }\n  return r;\n' % (R, n, decl, b, val)
    return Model(name, R, args, body, deps=deps_of(e))


SUF = {'epi8': (8, 'i'), 'epi16': (16, 'i'), 'epi32': (32, 'i'), 'epi64': (64, 'i'), 'epu8': (8, 'u'), 'epu16': (16, 'u'),
       'epu32': (32, 'u'), 'epu64': (64, 'u'), 'ps': (32, 'f'), 'pd': (64, 'f')}

RESOLVERS = []


def resolver(f):
    RESOLVERS.append(f)
    return f


def parse(name):
    m = re.match(r'^_mm(256|512)?_(mask_|maskz_|mask2_|mask3_)?(.*)$', name)
    if not m:
        return None
    return int(m.group(1) or 128), (m.group(2) or '')[:-1] or None, m.group(3)


@resolver
def r_lanewise(name):
    p = parse(name)
    if not p:
        return None
    W, mk, rest = p
    m = re.match(r'^([a-z]+?)_(epi8|epi16|epi32|epi64|epu8|epu16|epu32|epu64|ps|pd)$', rest)
    if not m:
        return None
    op, suf = m.group(1), m.group(2)
    b, kind = SUF[suf]
    if mk not in (None, 'mask', 'maskz'):
        return None
    table = FLT_OPS if kind == 'f' else INT_OPS
    if op not in table:
        return None
    if kind != 'f' and op in ALLOWED_BITS and b not in ALLOWED_BITS[op]:
        return None
    ar, ex = table[op]
    raw = bool(ex.get('raw'))
    if kind == 'f':
        e = ex.get('f') or ex.get('u')
        k = 'f' if 'f' in ex else 'u'
    else:
        e = ex.get(kind) or (ex.get('u') if kind == 'i' else None) or (ex.get('u'))
        if e is None:
            return None
        k = kind if kind in ex else 'u'
        # ops defined only for the signed view must not be resolved for epu names and vice versa
        if kind == 'u' and 'u' not in ex:
            return None
    if op == 'mov' and mk is None:
        return None
    return lanewise(name, W, b, k, ar, e, masking=mk, raw=raw)


@resolver
def r_bitwise_whole(name):
    m = re.match(r'^_mm(256|512)?_(and|or|xor|andnot)_(si128|si256|si512)$', name)
    if not m:
        return None
    W = int(m.group(1) or 128)
    op = {'and': 'a.q[i] & b.q[i]', 'or': 'a.q[i] | b.q[i]', 'xor': 'a.q[i] ^ b.q[i]', 'andnot': '~a.q[i] & b.q[i]'}[m.group(2)]
    R = REG[W]
    return Model(name, R, [(R, 'a'), (R, 'b')], '  %s r;\n  for (int i = 0; i < %d; i++) r.q[i] = %s;\n  return r;\n' % (R, W // 64, op))


@resolver
def r_cast(name):
    m = re.match(r'^_mm(256|512)?_cast(ps|pd|si)(128|256|512)?_(ps|pd|si)(128|256|512)?$', name)
    if not m:
        return None
    W = int(m.group(1) or 128)
    ws = int(m.group(3) or W)
    wd = int(m.group(5) or W)
    if ws == wd:
        return Model(name, REG[W], [(REG[W], 'a')], '  return a;\n')
    if wd < ws:
        return Model(name, REG[wd], [(REG[ws], 'a')], '  %s r;\n  for (int i = 0; i < %d; i++) r.q[i] = a.q[i];\n  return r;\n' % (REG[wd], wd // 64))
    # widening cast: upper bits undefined
    return Model(name, REG[wd], [(REG[ws], 'a')],
                 '  %s r;\n  for (int i = 0; i < %d; i++) r.q[i] = i < %d ? a.q[i] : nondet_u64();\n  return r;\n' % (REG[wd], wd // 64, ws // 64),
                 novalidate=True)


@resolver
def r_zero_undef(name):
    m = re.match(r'^_mm(256|512)?_(setzero|undefined)_(si128|si256|si512|ps|pd|epi32)$', name)
    if not m:
        return None
    W = int(m.group(1) or 128)
    R = REG[W]
    if m.group(2) == 'setzero':
        return Model(name, R, [], '  %s r = {{0}};\n  return r;\n' % R)
    return Model(name, R, [], '  %s r;\n  for (int i = 0; i < %d; i++) r.q[i] = nondet_u64();\n  return r;\n' % (R, W // 64), novalidate=True)


@resolver
def r_set1(name):
    p = parse(name)
    if not p:
        return None
    W, mk, rest = p
    m = re.match(r'^set1_(epi8|epi16|epi32|epi64x|epi64|ps|pd)$', rest)
    if not m or mk not in (None, 'mask', 'maskz'):
        return None
    suf = m.group(1).replace('64x', '64')
    b, kind = SUF[suf]
    R = REG[W]
    n = W // b
    at = {8: 'char', 16: 'short', 32: 'int', 64: 'long long'}[b] if kind != 'f' else ('float' if b == 32 else 'double')
    v = fstore(b, 'x') if kind == 'f' else '(%s)x' % UT[b]
    args = [(at, 'x')]
    if mk == 'mask':
        args = [(R, 'src'), (ktype(n), 'k')] + args
        v = '((((uint64_t)k >> i) & 1) ? %s : %s)' % (v, L(b, 'src'))
    elif mk == 'maskz':
        args = [(ktype(n), 'k')] + args
        v = '((((uint64_t)k >> i) & 1) ? %s : (%s)0)' % (v, UT[b])
    return Model(name, R, args, '  %s r = {{0}};\n  for (int i = 0; i < %d; i++) AVM_S%d(r, i, %s);\n  return r;\n' % (R, n, b, v))


@resolver
def r_set(name):
    m = re.match(r'^_mm(256|512)?_(set|setr)_(epi8|epi16|epi32|epi64x|epi64|ps|pd)$', name)
    if not m:
        return None
    W = int(m.group(1) or 128)
    suf = m.group(3).replace('64x', '64')
    b, kind = SUF[suf]
    n = W // b
    R = REG[W]
    at = {8: 'char', 16: 'short', 32: 'int', 64: 'long long'}[b] if kind != 'f' else ('float' if b == 32 else 'double')
    args = [(at, 'e%d' % i) for i in range(n)]
    # set: first argument is the HIGHEST lane; setr: first argument is lane 0
    body = '  %s r = {{0}};\n' % R
    for i in range(n):
        lane = (n - 1 - i) if m.group(2) == 'set' else i
        v = fstore(b, 'e%d' % i) if kind == 'f' else '(%s)e%d' % (UT[b], i)
        body += '  AVM_S%d(r, %d, %s);\n' % (b, lane, v)
    body += '  return r;\n'
    return Model(name, R, args, body)


@resolver
def r_shift_imm_or_count(name):
    p = parse(name)
    if not p:
        return None
    W, mk, rest = p
    m = re.match(r'^(slli|srli|srai|sll|srl|sra)_(epi16|epi32|epi64)$', rest)
    if not m or mk is not None:
        return None
    op, suf = m.group(1), m.group(2)
    b, _ = SUF[suf]
    R = REG[W]
    n = W // b
    byimm = op.endswith('i') and op != 'sra' or op == 'srai'
    base = op[:3]
    if byimm:
        args = [(R, 'a'), ('int', 'imm')]
        cnt = 'uint64_t c = (uint32_t)imm;'
    else:
        args = [(R, 'a'), ('m128', 'count')]
        cnt = 'uint64_t c = count.q[0];'
    if base == 'sll':
        e = 'c > %d ? (%s)0 : (%s)((uint64_t)x << c)' % (b - 1, UT[b], UT[b])
    elif base == 'srl':
        e = 'c > %d ? (%s)0 : (%s)(x >> c)' % (b - 1, UT[b], UT[b])
    else:
        e = ('c > %d ? ((x >> %d) ? (%s)%s : (%s)0) : (%s)(((x >> %d) && c) ? ((x >> c) | (%s)(%s << (%d - c))) : (x >> c))'
             % (b - 1, b - 1, UT[b], ONES[b], UT[b], UT[b], b - 1, UT[b], ONES[b], b))
    body = '  %s r = {{0}};\n  %s\n  for (int i = 0; i < %d; i++) { %s x = %s; AVM_S%d(r, i, %s); }\n  return r;\n' % (R, cnt, n, UT[b], L(b, 'a'), b, e)
    return Model(name, R, args, body, imm=[1] if byimm else [])


@resolver
def r_unpack(name):
    m = re.match(r'^_mm(256|512)?_unpack(lo|hi)_(epi8|epi16|epi32|epi64|ps|pd)$', name)
    if not m:
        return None
    W = int(m.group(1) or 128)
    b, _ = SUF[m.group(3)]
    R = REG[W]
    per = 128 // b
    off = 0 if m.group(2) == 'lo' else per // 2
    body = '  %s r = {{0}};\n  for (int blk = 0; blk < %d; blk++) for (int j = 0; j < %d; j++) {\n' % (R, W // 128, per // 2)
    body += '    AVM_S%d(r, blk * %d + 2 * j, AVM_L%d(a, blk * %d + %d + j));\n' % (b, per, b, per, off)
    body += '    AVM_S%d(r, blk * %d + 2 * j + 1, AVM_L%d(b, blk * %d + %d + j));\n  }\n  return r;\n' % (b, per, b, per, off)
    return Model(name, R, [(R, 'a'), (R, 'b')], body)


@resolver
def r_pack(name):
    m = re.match(r'^_mm(256|512)?_pack(s|us)_(epi16|epi32)$', name)
    if not m:
        return None
    W = int(m.group(1) or 128)
    b = 16 if m.group(3) == 'epi16' else 32
    h = b // 2
    R = REG[W]
    per = 128 // b
    if m.group(2) == 's':
        lo = {8: '-128', 16: '-32768'}[h]
        hi = {8: '127', 16: '32767'}[h]
    else:
        lo, hi = '0', {8: '255', 16: '65535'}[h]
    sat = '(v < %s ? (%s)(%s) : (v > %s ? (%s)%s : (%s)v))' % (lo, UT[h], lo, hi, UT[h], hi, UT[h])
    body = '  %s r = {{0}};\n  for (int blk = 0; blk < %d; blk++) for (int j = 0; j < %d; j++) {\n' % (R, W // 128, per)
    body += '    { %s v = (%s)AVM_L%d(a, blk * %d + j); AVM_S%d(r, blk * %d + j, %s); }\n' % (ST[b], ST[b], b, per, h, 2 * per, sat)
    body += '    { %s v = (%s)AVM_L%d(b, blk * %d + j); AVM_S%d(r, blk * %d + %d + j, %s); }\n  }\n  return r;\n' % (ST[b], ST[b], b, per, h, 2 * per, per, sat)
    return Model(name, R, [(R, 'a'), (R, 'b')], body)


@resolver
def r_shuffle_epi8(name):
    m = re.match(r'^_mm(256|512)?_shuffle_epi8$', name)
    if not m:
        return None
    W = int(m.group(1) or 128)
    R = REG[W]
    body = ('  %s r = {{0}};\n  for (int i = 0; i < %d; i++) { uint8_t s = AVM_L8(b, i); '
            'AVM_S8(r, i, (s & 0x80) ? 0 : AVM_L8(a, (i & ~15) + (s & 15))); }\n  return r;\n' % (R, W // 8))
    return Model(name, R, [(R, 'a'), (R, 'b')], body)


@resolver
def r_blendv(name):
    m = re.match(r'^_mm(256)?_blendv_(epi8|ps|pd)$', name)
    if not m:
        return None
    W = int(m.group(1) or 128)
    b = {'epi8': 8, 'ps': 32, 'pd': 64}[m.group(2)]
    R = REG[W]
    body = '  %s r = {{0}};\n  for (int i = 0; i < %d; i++) AVM_S%d(r, i, (AVM_L%d(m, i) >> %d) ? AVM_L%d(b, i) : AVM_L%d(a, i));\n  return r;\n' % (
        R, W // b, b, b, b - 1, b, b)
    return Model(name, R, [(R, 'a'), (R, 'b'), (R, 'm')], body)


@resolver
def r_mask_blend(name):
    p = parse(name)
    if not p:
        return None
    W, mk, rest = p
    m = re.match(r'^blend_(epi8|epi16|epi32|epi64|ps|pd)$', rest)
    if not m or mk != 'mask':
        return None
    b, _ = SUF[m.group(1)]
    R = REG[W]
    n = W // b
    body = '  %s r = {{0}};\n  for (int i = 0; i < %d; i++) AVM_S%d(r, i, (((uint64_t)k >> i) & 1) ? AVM_L%d(b, i) : AVM_L%d(a, i));\n  return r;\n' % (R, n, b, b, b)
    return Model(name, R, [(ktype(n), 'k'), (R, 'a'), (R, 'b')], body)


@resolver
def r_movemask(name):
    m = re.match(r'^_mm(256)?_movemask_(epi8|ps|pd)$', name)
    if m:
        W = int(m.group(1) or 128)
        b = {'epi8': 8, 'ps': 32, 'pd': 64}[m.group(2)]
        return Model(name, 'int', [(REG[W], 'a')],
                     '  uint32_t r = 0;\n  for (int i = 0; i < %d; i++) r |= (uint32_t)((AVM_L%d(a, i) >> %d) & 1) << i;\n  return (int)r;\n' % (W // b, b, b - 1))
    m = re.match(r'^_mm(256|512)?_movepi(8|16|32|64)_mask$', name)
    if m:
        W = int(m.group(1) or 128)
        b = int(m.group(2))
        n = W // b
        return Model(name, ktype(n), [(REG[W], 'a')],
                     '  uint64_t r = 0;\n  for (int i = 0; i < %d; i++) r |= (uint64_t)((AVM_L%d(a, i) >> %d) & 1) << i;\n  return (%s)r;\n' % (n, b, b - 1, ktype(n)))
    m = re.match(r'^_mm(256|512)?_movm_epi(8|16|32|64)$', name)
    if m:
        W = int(m.group(1) or 128)
        b = int(m.group(2))
        n = W // b
        R = REG[W]
        return Model(name, R, [(ktype(n), 'k')],
                     '  %s r = {{0}};\n  for (int i = 0; i < %d; i++) AVM_S%d(r, i, (((uint64_t)k >> i) & 1) ? %s : 0);\n  return r;\n' % (R, n, b, ONES[b]))
    m = re.match(r'^_mm(256|512)?_(test|testn)_epi(8|16|32|64)_mask$', name)
    if m:
        W = int(m.group(1) or 128)
        b = int(m.group(3))
        n = W // b
        cmp = '!= 0' if m.group(2) == 'test' else '== 0'
        return Model(name, ktype(n), [(REG[W], 'a'), (REG[W], 'b')],
                     '  uint64_t r = 0;\n  for (int i = 0; i < %d; i++) r |= (uint64_t)((AVM_L%d(a, i) & AVM_L%d(b, i)) %s) << i;\n  return (%s)r;\n' % (n, b, b, cmp, ktype(n)))
    m = re.match(r'^_mm(256)?_test(z|c)_si(128|256)$', name)
    if m:
        W = int(m.group(1) or 128)
        e = 'a.q[i] & b.q[i]' if m.group(2) == 'z' else '~a.q[i] & b.q[i]'
        return Model(name, 'int', [(REG[W], 'a'), (REG[W], 'b')],
                     '  uint64_t acc = 0;\n  for (int i = 0; i < %d; i++) acc |= %s;\n  return acc == 0;\n' % (W // 64, e))
    return None


@resolver
def r_cmp_builtin(name):
    m = re.match(r'^__builtin_ia32_(u?)cmp([bwdq])(128|256|512)_mask$', name)
    if m:
        W = int(m.group(3))
        b = {'b': 8, 'w': 16, 'd': 32, 'q': 64}[m.group(2)]
        n = W // b
        if m.group(1):
            e = 'avm_ucmp(AVM_L%d(a, i), AVM_L%d(b, i), imm)' % (b, b)
            dep = 'avm_ucmp'
        else:
            e = 'avm_icmp((%s)AVM_L%d(a, i), (%s)AVM_L%d(b, i), imm)' % (ST[b], b, ST[b], b)
            dep = 'avm_icmp'
        body = '  uint64_t r = 0;\n  for (int i = 0; i < %d; i++) r |= (uint64_t)(%s != 0) << i;\n  return (%s)(r & (uint64_t)k);\n' % (n, e, ktype(n))
        return Model(name, ktype(n), [(REG[W], 'a'), (REG[W], 'b'), ('int', 'imm'), (ktype(n), 'k')], body, deps=[dep], imm=[2])
    m = re.match(r'^__builtin_ia32_cmpp([sd])(128|256|512)_mask$', name)
    if m:
        W = int(m.group(2))
        b = 32 if m.group(1) == 's' else 64
        n = W // b
        conv = 'avm_u2f' if b == 32 else 'avm_u2d'
        dep = 'avm_fcmp%d' % b
        args = [(REG[W], 'a'), (REG[W], 'b'), ('int', 'imm'), (ktype(n), 'k')]
        if W == 512:
            args.append(('int', 'rounding'))
        body = '  uint64_t r = 0;\n  for (int i = 0; i < %d; i++) r |= (uint64_t)(%s(%s(AVM_L%d(a, i)), %s(AVM_L%d(b, i)), imm) != 0) << i;\n  return (%s)(r & (uint64_t)k);\n' % (
            n, dep, conv, b, conv, b, ktype(n))
        return Model(name, ktype(n), args, body, deps=[dep], imm=[2] + ([4] if W == 512 else []))
    m = re.match(r'^__builtin_ia32_cmpp([sd])(256)?$', name)
    if m:
        W = int(m.group(2) or 128)
        b = 32 if m.group(1) == 's' else 64
        n = W // b
        conv = 'avm_u2f' if b == 32 else 'avm_u2d'
        dep = 'avm_fcmp%d' % b
        R = REG[W]
        body = '  %s r = {{0}};\n  for (int i = 0; i < %d; i++) AVM_S%d(r, i, %s(%s(AVM_L%d(a, i)), %s(AVM_L%d(b, i)), imm) ? %s : 0);\n  return r;\n' % (
            R, n, b, dep, conv, b, conv, b, ONES[b])
        return Model(name, R, [(R, 'a'), (R, 'b'), ('int', 'imm')], body, deps=[dep], imm=[2])
    return None


@resolver
def r_kops(name):
    m = re.match(r'^_k(and|or|xor|xnor|andn)_mask(8|16|32|64)$', name)
    if m:
        t = ktype(int(m.group(2)))
        e = {'and': 'a & b', 'or': 'a | b', 'xor': 'a ^ b', 'xnor': '~(a ^ b)', 'andn': '~a & b'}[m.group(1)]
        return Model(name, t, [(t, 'a'), (t, 'b')], '  return (%s)(%s);\n' % (t, e))
    m = re.match(r'^_knot_mask(8|16|32|64)$', name)
    if m:
        t = ktype(int(m.group(1)))
        return Model(name, t, [(t, 'a')], '  return (%s)~a;\n' % t)
    m = re.match(r'^_kortest(z|c)_mask(8|16|32|64)_u8$', name)
    if m:
        t = ktype(int(m.group(2)))
        e = '(%s)(a | b) == 0' % t if m.group(1) == 'z' else '(%s)(a | b) == (%s)~(%s)0' % (t, t, t)
        return Model(name, 'unsigned char', [(t, 'a'), (t, 'b')], '  return (unsigned char)(%s);\n' % e)
    m = re.match(r'^_mm512_k(and|or|xor|not)$', name)
    if m:
        if m.group(1) == 'not':
            return Model(name, 'uint16_t', [('uint16_t', 'a')], '  return (uint16_t)~a;\n')
        e = {'and': 'a & b', 'or': 'a | b', 'xor': 'a ^ b'}[m.group(1)]
        return Model(name, 'uint16_t', [('uint16_t', 'a'), ('uint16_t', 'b')], '  return (uint16_t)(%s);\n' % e)
    if name == '_mm512_mask2int':
        return Model(name, 'int', [('uint16_t', 'k')], '  return (int)k;\n')
    if name == '_cvtu32_mask16':
        return Model(name, 'uint16_t', [('unsigned int', 'a')], '  return (uint16_t)a;\n')
    return None


@resolver
def r_scalar_bits(name):
    T = {
        '_lzcnt_u32': ('unsigned int', [('unsigned int', 'x')], '  return avm_clz(x, 32);\n', ['avm_clz']),
        '_lzcnt_u64': ('unsigned long long', [('unsigned long long', 'x')], '  return avm_clz(x, 64);\n', ['avm_clz']),
        '__tzcnt_u32': ('unsigned int', [('unsigned int', 'x')], '  return avm_ctz(x, 32);\n', ['avm_ctz']),
        '__tzcnt_u64': ('unsigned long long', [('unsigned long long', 'x')], '  return avm_ctz(x, 64);\n', ['avm_ctz']),
        '_tzcnt_u32': ('unsigned int', [('unsigned int', 'x')], '  return avm_ctz(x, 32);\n', ['avm_ctz']),
        '_tzcnt_u64': ('unsigned long long', [('unsigned long long', 'x')], '  return avm_ctz(x, 64);\n', ['avm_ctz']),
        '__popcntd': ('int', [('unsigned int', 'x')], '  return (int)avm_popcnt(x, 32);\n', ['avm_popcnt']),
        '__popcntq': ('long long', [('unsigned long long', 'x')], '  return (long long)avm_popcnt(x, 64);\n', ['avm_popcnt']),
        '_mm_popcnt_u32': ('int', [('unsigned int', 'x')], '  return (int)avm_popcnt(x, 32);\n', ['avm_popcnt']),
        '_mm_popcnt_u64': ('long long', [('unsigned long long', 'x')], '  return (long long)avm_popcnt(x, 64);\n', ['avm_popcnt']),
        # BSR / BSF: destination undefined for a zero source
        '__bsrd': ('int', [('int', 'x')], '  if (x == 0) return nondet_i32();\n  return 31 - (int)avm_clz((uint32_t)x, 32);\n', ['avm_clz']),
        '__bsfd': ('int', [('int', 'x')], '  if (x == 0) return nondet_i32();\n  return (int)avm_ctz((uint32_t)x, 32);\n', ['avm_ctz']),
        '__bsrq': ('int', [('long long', 'x')], '  if (x == 0) return nondet_i32();\n  return 63 - (int)avm_clz((uint64_t)x, 64);\n', ['avm_clz']),
        '__bsfq': ('int', [('long long', 'x')], '  if (x == 0) return nondet_i32();\n  return (int)avm_ctz((uint64_t)x, 64);\n', ['avm_ctz']),
        # GCC-style builtins: undefined for 0
        '__builtin_clzl': ('int', [('unsigned long', 'x')], '  if (x == 0) return nondet_i32();\n  return (int)avm_clz(x, 64);\n', ['avm_clz']),
        '__builtin_clzll': ('int', [('unsigned long long', 'x')], '  if (x == 0) return nondet_i32();\n  return (int)avm_clz(x, 64);\n', ['avm_clz']),
        '__builtin_clz': ('int', [('unsigned int', 'x')], '  if (x == 0) return nondet_i32();\n  return (int)avm_clz(x, 32);\n', ['avm_clz']),
        '__builtin_ctzll': ('int', [('unsigned long long', 'x')], '  if (x == 0) return nondet_i32();\n  return (int)avm_ctz(x, 64);\n', ['avm_ctz']),
        '__builtin_ctzl': ('int', [('unsigned long', 'x')], '  if (x == 0) return nondet_i32();\n  return (int)avm_ctz(x, 64);\n', ['avm_ctz']),
        '__builtin_ctz': ('int', [('unsigned int', 'x')], '  if (x == 0) return nondet_i32();\n  return (int)avm_ctz(x, 32);\n', ['avm_ctz']),
        '_bswap': ('int', [('int', 'x')], '  uint32_t u = (uint32_t)x;\n  return (int)((u >> 24) | ((u >> 8) & 0xff00u) | ((u << 8) & 0xff0000u) | (u << 24));\n', []),
        '__bswapd': ('int', [('int', 'x')], '  uint32_t u = (uint32_t)x;\n  return (int)((u >> 24) | ((u >> 8) & 0xff00u) | ((u << 8) & 0xff0000u) | (u << 24));\n', []),
        '__bswapq': ('long long', [('long long', 'x')], '  uint64_t u = (uint64_t)x, r = 0;\n  for (int i = 0; i < 8; i++) r |= ((u >> (8 * i)) & 0xff) << (56 - 8 * i);\n  return (long long)r;\n', []),
        '_bswap64': ('long long', [('long long', 'x')], '  uint64_t u = (uint64_t)x, r = 0;\n  for (int i = 0; i < 8; i++) r |= ((u >> (8 * i)) & 0xff) << (56 - 8 * i);\n  return (long long)r;\n', []),
        '__builtin_bswap16': ('unsigned short', [('unsigned short', 'x')], '  return (unsigned short)((x >> 8) | (x << 8));\n', []),
        '__builtin_bswap32': ('unsigned int', [('unsigned int', 'u')], '  return ((u >> 24) | ((u >> 8) & 0xff00u) | ((u << 8) & 0xff0000u) | (u << 24));\n', []),
        '__builtin_bswap64': ('unsigned long long', [('unsigned long long', 'u')], '  uint64_t r = 0;\n  for (int i = 0; i < 8; i++) r |= ((u >> (8 * i)) & 0xff) << (56 - 8 * i);\n  return r;\n', []),
        '__rolw': ('unsigned short', [('unsigned short', 'x'), ('int', 'c')], '  unsigned s = (unsigned)c & 15;\n  return (unsigned short)(s ? ((x << s) | (x >> (16 - s))) : x);\n', []),
        '__rorw': ('unsigned short', [('unsigned short', 'x'), ('int', 'c')], '  unsigned s = (unsigned)c & 15;\n  return (unsigned short)(s ? ((x >> s) | (x << (16 - s))) : x);\n', []),
        '__rolb': ('unsigned char', [('unsigned char', 'x'), ('int', 'c')], '  unsigned s = (unsigned)c & 7;\n  return (unsigned char)(s ? ((x << s) | (x >> (8 - s))) : x);\n', []),
        '__rorb': ('unsigned char', [('unsigned char', 'x'), ('int', 'c')], '  unsigned s = (unsigned)c & 7;\n  return (unsigned char)(s ? ((x >> s) | (x << (8 - s))) : x);\n', []),
        '__rold': ('unsigned int', [('unsigned int', 'x'), ('int', 'c')], '  unsigned s = (unsigned)c & 31;\n  return s ? ((x << s) | (x >> (32 - s))) : x;\n', []),
        '__rord': ('unsigned int', [('unsigned int', 'x'), ('int', 'c')], '  unsigned s = (unsigned)c & 31;\n  return s ? ((x >> s) | (x << (32 - s))) : x;\n', []),
        '__rolq': ('unsigned long long', [('unsigned long long', 'x'), ('int', 'c')], '  unsigned s = (unsigned)c & 63;\n  return s ? ((x << s) | (x >> (64 - s))) : x;\n', []),
        '__rorq': ('unsigned long long', [('unsigned long long', 'x'), ('int', 'c')], '  unsigned s = (unsigned)c & 63;\n  return s ? ((x >> s) | (x << (64 - s))) : x;\n', []),
        # DIV r/m64: #DE when the quotient does not fit, i.e. unless hi < divisor (SDM vol.2 DIV)
        'model_divq': ('uint64_t', [('uint64_t', 'hi'), ('uint64_t', 'lo'), ('uint64_t', 'v'), ('uint64_t*', 'rem')],
                       '  __CPROVER_assert(v != 0, "divq: #DE division by zero");\n'
                       '  __CPROVER_assert(hi < v, "divq: #DE quotient overflow (high half of dividend >= divisor)");\n'
                       '  unsigned __int128 n = ((unsigned __int128)hi << 64) | lo;\n  *rem = (uint64_t)(n % v);\n  return (uint64_t)(n / v);\n', []),
        # add ; rcr 1  == (a + b) >> 1 with the carry shifted in
        'model_add_rcr64': ('uint64_t', [('uint64_t', 'a'), ('uint64_t', 'b')],
                            '  uint64_t s = a + b;\n  uint64_t cy = s < a;\n  return (s >> 1) | (cy << 63);\n', []),
    }
    if name in T:
        ret, args, body, deps = T[name]
        return Model(name, ret, args, body, deps=deps)
    return None


@resolver
def r_scalar_moves(name):
    T = {
        '_mm_cvtsi128_si32': ('int', [('m128', 'a')], '  return (int)AVM_L32(a, 0);\n'),
        '_mm_cvtsi128_si64': ('long long', [('m128', 'a')], '  return (long long)a.q[0];\n'),
        '_mm_cvtsi32_si128': ('m128', [('int', 'x')], '  m128 r = {{0}};\n  r.q[0] = (uint32_t)x;\n  return r;\n'),
        '_mm_cvtsi64_si128': ('m128', [('long long', 'x')], '  m128 r = {{0}};\n  r.q[0] = (uint64_t)x;\n  return r;\n'),
        '_mm_cvtss_f32': ('float', [('m128', 'a')], '  return avm_u2f(AVM_L32(a, 0));\n'),
        '_mm_cvtsd_f64': ('double', [('m128', 'a')], '  return avm_u2d(a.q[0]);\n'),
        '_mm_set_ss': ('m128', [('float', 'x')], '  m128 r = {{0}};\n  r.q[0] = avm_f2u(x);\n  return r;\n'),
        '_mm_set_sd': ('m128', [('double', 'x')], '  m128 r = {{0}};\n  r.q[0] = avm_d2u(x);\n  return r;\n'),
        '_mm_set_m128i': ('m256', [('m128', 'hi'), ('m128', 'lo')], '  m256 r;\n  r.q[0] = lo.q[0]; r.q[1] = lo.q[1]; r.q[2] = hi.q[0]; r.q[3] = hi.q[1];\n  return r;\n'),
        '_mm256_set_m128i': ('m256', [('m128', 'hi'), ('m128', 'lo')], '  m256 r;\n  r.q[0] = lo.q[0]; r.q[1] = lo.q[1]; r.q[2] = hi.q[0]; r.q[3] = hi.q[1];\n  return r;\n'),
        '_mm_cvtsi64_sd': ('m128', [('m128', 'a'), ('long long', 'x')], '  m128 r = a;\n  r.q[0] = avm_d2u((double)x);\n  return r;\n'),
        '_mm_cvttsd_si64': ('long long', [('m128', 'a')], '  return (long long)avm_cvtt_f64_i64(avm_u2d(a.q[0]));\n'),
        '_mm_cvtsd_si64': ('long long', [('m128', 'a')], '  return (long long)avm_cvt_f64_i64(avm_u2d(a.q[0]));\n'),
        '_mm_broadcastb_epi8': ('m128', [('m128', 'a')], '  m128 r = {{0}};\n  for (int i = 0; i < 16; i++) AVM_S8(r, i, AVM_L8(a, 0));\n  return r;\n'),
        '_mm256_broadcastsi128_si256': ('m256', [('m128', 'a')], '  m256 r;\n  r.q[0] = a.q[0]; r.q[1] = a.q[1]; r.q[2] = a.q[0]; r.q[3] = a.q[1];\n  return r;\n'),
        '_mm512_broadcast_i32x4': ('m512', [('m128', 'a')], '  m512 r;\n  for (int i = 0; i < 8; i++) r.q[i] = a.q[i & 1];\n  return r;\n'),
    }
    if name in T:
        ret, args, body = T[name]
        deps = ['avm_cvt_f2i32'] if 'avm_cvt' in body else []
        return Model(name, ret, args, body, deps=deps)
    return None


@resolver
def r_sqrt_round(name):
    # _mm512_sqrt_round_ps/pd (clang: a macro over __builtin_ia32_sqrtps512(a, rounding); the masked forms go through select)
    m = re.match(r'^__builtin_ia32_sqrtp(s|d)512$', name)
    if m:
        b = 32 if m.group(1) == 's' else 64
        n = 512 // b
        f = ('avm_f2u(avm_sqrtf_er(avm_u2f(x), r))' if b == 32 else 'avm_d2u(avm_sqrt_er(avm_u2d(x), r))')
        body = '  m512 o = {{0}};\n  for (int i = 0; i < %d; i++) { %s x = AVM_L%d(a, i); AVM_S%d(o, i, %s); }\n  return o;\n' % (
            n, 'uint32_t' if b == 32 else 'uint64_t', b, b, f)
        return Model(name, 'm512', [('m512', 'a'), ('int', 'r')], body)
    return None


@resolver
def r_mul_wide(name):
    m = re.match(r'^_mm(256|512)?_mul_(epu32|epi32)$', name)
    if m:
        W = int(m.group(1) or 128)
        R = REG[W]
        if m.group(2) == 'epu32':
            e = 'AVM_MUL_u64((uint64_t)AVM_L32(a, 2 * i), (uint64_t)AVM_L32(b, 2 * i))'
        else:
            e = '(uint64_t)AVM_MUL_i64((int64_t)(int32_t)AVM_L32(a, 2 * i), (int64_t)(int32_t)AVM_L32(b, 2 * i))'
        return Model(name, R, [(R, 'a'), (R, 'b')], '  %s r;\n  for (int i = 0; i < %d; i++) r.q[i] = %s;\n  return r;\n' % (R, W // 64, e))
    m = re.match(r'^_mm(256|512)?_maddubs_epi16$', name)
    if m:
        W = int(m.group(1) or 128)
        R = REG[W]
        body = ('  %s r = {{0}};\n  for (int i = 0; i < %d; i++) {\n'
                '    int32_t s = (int32_t)AVM_L8(a, 2 * i) * (int32_t)(int8_t)AVM_L8(b, 2 * i) + (int32_t)AVM_L8(a, 2 * i + 1) * (int32_t)(int8_t)AVM_L8(b, 2 * i + 1);\n'
                '    AVM_S16(r, i, s > 32767 ? 32767 : (s < -32768 ? -32768 : s));\n  }\n  return r;\n' % (R, W // 16))
        return Model(name, R, [(R, 'a'), (R, 'b')], body)
    m = re.match(r'^_mm(256)?_hadd_epi32$', name)
    if m:
        W = int(m.group(1) or 128)
        R = REG[W]
        body = '  %s r = {{0}};\n  for (int blk = 0; blk < %d; blk++) {\n' % (R, W // 128)
        body += '    AVM_S32(r, blk * 4 + 0, AVM_L32(a, blk * 4 + 0) + AVM_L32(a, blk * 4 + 1));\n    AVM_S32(r, blk * 4 + 1, AVM_L32(a, blk * 4 + 2) + AVM_L32(a, blk * 4 + 3));\n'
        body += '    AVM_S32(r, blk * 4 + 2, AVM_L32(b, blk * 4 + 0) + AVM_L32(b, blk * 4 + 1));\n    AVM_S32(r, blk * 4 + 3, AVM_L32(b, blk * 4 + 2) + AVM_L32(b, blk * 4 + 3));\n  }\n  return r;\n'
        return Model(name, R, [(R, 'a'), (R, 'b')], body)
    return None


@resolver
def r_extend_truncate(name):
    m = re.match(r'^_mm(256|512)?_cvtep(i|u)(8|16|32)_epi(16|32|64)$', name)
    if m and int(m.group(3)) < int(m.group(4)):
        W = int(m.group(1) or 128)
        sb, db = int(m.group(3)), int(m.group(4))
        n = W // db
        srcW = max(128, n * sb)
        sx = m.group(2) == 'i'
        e = '(%s)(%s)AVM_L%d(a, i)' % (UT[db], (ST[db] + ')(' + ST[sb]) if sx else UT[db], sb)
        return Model(name, REG[W], [(REG[srcW], 'a')], '  %s r = {{0}};\n  for (int i = 0; i < %d; i++) AVM_S%d(r, i, %s);\n  return r;\n' % (REG[W], n, db, e))
    m = re.match(r'^_mm(256|512)?_cvt(s|us)?epi(16|32|64)_epi(8|16|32)$', name)
    if m and int(m.group(3)) > int(m.group(4)):
        W = int(m.group(1) or 128)
        sb, db = int(m.group(3)), int(m.group(4))
        n = W // sb
        dstW = max(128, n * db)
        sat = m.group(2)
        if not sat:
            e = '(%s)AVM_L%d(a, i)' % (UT[db], sb)
            pre = ''
        elif sat == 's':
            lo = {8: '-128', 16: '-32768', 32: '(-2147483647-1)'}[db]
            hi = {8: '127', 16: '32767', 32: '2147483647'}[db]
            pre = '%s v = (%s)AVM_L%d(a, i); ' % (ST[sb], ST[sb], sb)
            e = '(v < %s ? (%s)(%s) : (v > %s ? (%s)%s : (%s)v))' % (lo, UT[db], lo, hi, UT[db], hi, UT[db])
        else:
            hi = ONES[db]
            pre = '%s v = AVM_L%d(a, i); ' % (UT[sb], sb)
            e = '(v > %s ? (%s)%s : (%s)v)' % (hi, UT[db], hi, UT[db])
        return Model(name, REG[dstW], [(REG[W], 'a')],
                     '  %s r = {{0}};\n  for (int i = 0; i < %d; i++) { %sAVM_S%d(r, i, %s); }\n  return r;\n' % (REG[dstW], n, pre, db, e))
    return None



# =====================================================================================================
# part 2: memory operations (footprint is part of the contract), conversions, shuffles, gathers ...
# =====================================================================================================
def ptr_of(suf):
    return {'ps': 'const float*', 'pd': 'const double*'}.get(suf, 'const void*')


@resolver
def r_loadstore(name):
    p = parse(name)
    if not p:
        return None
    W, mk, rest = p
    R = REG[W]
    nb = W // 8
    m = re.match(r'^(loadu|load|lddqu)_(si128|si256|si512|ps|pd|epi8|epi16|epi32|epi64)$', rest)
    if m and mk is None:
        al = m.group(1) == 'load'
        body = ''
        if al:
            body += '  __CPROVER_assert(AVM_ADDR_MOD(p) %% %d == 0, "aligned load: address not %d-byte aligned");\n' % (nb, nb)
        body += '  return *(const %s*)p;\n' % R
        pt = {'ps': 'const float*', 'pd': 'const double*'}.get(m.group(2), 'const void*')
        return Model(name, R, [(pt, 'p')], body, mem=True)
    m = re.match(r'^(storeu|store)_(si128|si256|si512|ps|pd|epi8|epi16|epi32|epi64)$', rest)
    if m and mk is None:
        al = m.group(1) == 'store'
        body = ''
        if al:
            body += '  __CPROVER_assert(AVM_ADDR_MOD(p) %% %d == 0, "aligned store: address not %d-byte aligned");\n' % (nb, nb)
        body += '  *(%s*)p = a;\n' % R
        pt = {'ps': 'float*', 'pd': 'double*'}.get(m.group(2), 'void*')
        return Model(name, 'void', [(pt, 'p'), (R, 'a')], body, mem=True)
    # AVX-512 masked loads: fault suppression -- only active elements are accessed
    m = re.match(r'^(loadu|load)_(epi8|epi16|epi32|epi64|ps|pd)$', rest)
    if m and mk in ('mask', 'maskz'):
        b, _ = SUF[m.group(2)]
        n = W // b
        al = m.group(1) == 'load'
        args = ([(R, 'src')] if mk == 'mask' else []) + [(ktype(n), 'k'), ('const void*', 'p')]
        other = L(b, 'src') if mk == 'mask' else '(%s)0' % UT[b]
        body = ''
        if al:
            body += '  __CPROVER_assert(AVM_ADDR_MOD(p) %% %d == 0, "aligned masked load: address not %d-byte aligned");\n' % (nb, nb)
        body += '  %s r = {{0}};\n  for (int i = 0; i < %d; i++) AVM_S%d(r, i, (((uint64_t)k >> i) & 1) ? ((const %s*)p)[i] : %s);\n  return r;\n' % (R, n, b, UT[b], other)
        return Model(name, R, args, body, mem=True)
    m = re.match(r'^(storeu|store)_(epi8|epi16|epi32|epi64|ps|pd)$', rest)
    if m and mk == 'mask':
        b, _ = SUF[m.group(2)]
        n = W // b
        al = m.group(1) == 'store'
        body = ''
        if al:
            body += '  __CPROVER_assert(AVM_ADDR_MOD(p) %% %d == 0, "aligned masked store: address not %d-byte aligned");\n' % (nb, nb)
        body += '  for (int i = 0; i < %d; i++) if (((uint64_t)k >> i) & 1) ((%s*)p)[i] = %s;\n' % (n, UT[b], L(b, 'a'))
        return Model(name, 'void', [('void*', 'p'), (ktype(n), 'k'), (R, 'a')], body, mem=True)
    # AVX/AVX2 VMASKMOV: element active iff the sign bit of the mask element is set; inactive elements are not accessed
    m = re.match(r'^maskload_(epi32|epi64|ps|pd)$', rest)
    if m and mk is None:
        b, _ = SUF[m.group(1)]
        n = W // b
        body = '  %s r = {{0}};\n  for (int i = 0; i < %d; i++) AVM_S%d(r, i, (AVM_L%d(m, i) >> %d) ? ((const %s*)p)[i] : (%s)0);\n  return r;\n' % (R, n, b, b, b - 1, UT[b], UT[b])
        return Model(name, R, [('const void*', 'p'), (R, 'm')], body, mem=True)
    m = re.match(r'^maskstore_(epi32|epi64|ps|pd)$', rest)
    if m and mk is None:
        b, _ = SUF[m.group(1)]
        n = W // b
        body = '  for (int i = 0; i < %d; i++) if (AVM_L%d(m, i) >> %d) ((%s*)p)[i] = %s;\n' % (n, b, b - 1, UT[b], L(b, 'a'))
        return Model(name, 'void', [('void*', 'p'), (R, 'm'), (R, 'a')], body, mem=True)
    return None


@resolver
def r_mem_misc(name):
    T = {
        '_mm_loadu_si64': ('m128', [('const void*', 'p')], '  m128 r = {{0}};\n  r.q[0] = *(const uint64_t*)p;\n  return r;\n'),
        '_mm_loadl_epi64': ('m128', [('const void*', 'p')], '  m128 r = {{0}};\n  r.q[0] = *(const uint64_t*)p;\n  return r;\n'),
        '_mm_loadu_si32': ('m128', [('const void*', 'p')], '  m128 r = {{0}};\n  r.q[0] = *(const uint32_t*)p;\n  return r;\n'),
        '_mm_loadu_si16': ('m128', [('const void*', 'p')], '  m128 r = {{0}};\n  r.q[0] = *(const uint16_t*)p;\n  return r;\n'),
        '_mm_load_ss': ('m128', [('const float*', 'p')], '  m128 r = {{0}};\n  r.q[0] = *(const uint32_t*)p;\n  return r;\n'),
        '_mm_load_sd': ('m128', [('const double*', 'p')], '  m128 r = {{0}};\n  r.q[0] = *(const uint64_t*)p;\n  return r;\n'),
        '_mm_store_ss': ('void', [('float*', 'p'), ('m128', 'a')], '  *(uint32_t*)p = AVM_L32(a, 0);\n'),
        '_mm_store_sd': ('void', [('double*', 'p'), ('m128', 'a')], '  *(uint64_t*)p = a.q[0];\n'),
        '_mm_storeu_si64': ('void', [('void*', 'p'), ('m128', 'a')], '  *(uint64_t*)p = a.q[0];\n'),
        '_mm_storel_epi64': ('void', [('void*', 'p'), ('m128', 'a')], '  *(uint64_t*)p = a.q[0];\n'),
        '_mm_storeu_si32': ('void', [('void*', 'p'), ('m128', 'a')], '  *(uint32_t*)p = AVM_L32(a, 0);\n'),
        '_mm_storeu_si16': ('void', [('void*', 'p'), ('m128', 'a')], '  *(uint16_t*)p = AVM_L16(a, 0);\n'),
        # MASKMOVDQU: writes the selected bytes, but the SDM allows (and this CPU does signal) faults for the
        # whole 16-byte range, also for an all-zero mask: the contract requires the full range to be writable.
        '_mm_maskmoveu_si128': ('void', [('m128', 'a'), ('m128', 'm'), ('char*', 'p')],
                                '  __CPROVER_assert(__CPROVER_w_ok(p, 16), "maskmovdqu: the whole 16-byte destination range must be accessible");\n'
                                '  for (int i = 0; i < 16; i++) if (AVM_L8(m, i) >> 7) ((uint8_t*)p)[i] = AVM_L8(a, i);\n'),
        '_mm_prefetch': ('void', [('const void*', 'p'), ('int', 'hint')], '  (void)p; (void)hint;\n'),
        # MXCSR: rounding control lives in __CPROVER_rounding_mode (same encoding as MXCSR.RC), the rest in model_mxcsr
        '_mm_getcsr': ('unsigned int', [], '  return (model_mxcsr & ~0x6000u) | (((unsigned)__CPROVER_rounding_mode & 3u) << 13);\n'),
        '_mm_setcsr': ('void', [('unsigned int', 'x')], '  model_mxcsr = x & ~0x6000u;\n  __CPROVER_rounding_mode = (int)((x >> 13) & 3u);\n'),
    }
    if name in T:
        ret, args, body = T[name]
        return Model(name, ret, args, body, mem=True, deps=['model_mxcsr'] if 'model_mxcsr' in body else [])
    return None


helper('model_mxcsr', '')


@resolver
def r_convert_fp(name):
    p = parse(name)
    if not p:
        return None
    W, mk, rest = p
    if mk not in (None, 'maskz'):
        return None
    R = REG[W]
    C = {
        # name: (src bits, dst bits, lanes computed from (W, src, dst), expr on lane `x`)
        'cvtepi32_ps': (32, 32, '%s((float)(int32_t)x)' % 'avm_f2u'),
        'cvtepu32_ps': (32, 32, 'avm_f2u((float)x)'),
        'cvtepi32_pd': (32, 64, 'avm_d2u((double)(int32_t)x)'),
        'cvtepu32_pd': (32, 64, 'avm_d2u((double)x)'),
        'cvtepi64_pd': (64, 64, 'avm_d2u((double)(int64_t)x)'),
        'cvtepu64_pd': (64, 64, 'avm_d2u((double)x)'),
        'cvtps_epi32': (32, 32, 'avm_cvt_f32_i32(avm_u2f(x))'),
        'cvttps_epi32': (32, 32, 'avm_cvtt_f32_i32(avm_u2f(x))'),
        'cvtpd_epi32': (64, 32, 'avm_cvt_f64_i32(avm_u2d(x))'),
        'cvttpd_epi32': (64, 32, 'avm_cvtt_f64_i32(avm_u2d(x))'),
        'cvtpd_epi64': (64, 64, 'avm_cvt_f64_i64(avm_u2d(x))'),
        'cvttpd_epi64': (64, 64, 'avm_cvtt_f64_i64(avm_u2d(x))'),
        'cvttpd_epu32': (64, 32, 'avm_cvtt_f64_u32(avm_u2d(x))'),
        'cvtps_pd': (32, 64, 'avm_d2u((double)avm_u2f(x))'),
        'cvtpd_ps': (64, 32, 'avm_f2u((float)avm_u2d(x))'),
    }
    if rest not in C:
        return None
    sb, db, e = C[rest]
    # W is the width named in the intrinsic: the wider of source/destination for 512, the source width for narrowing ...
    if sb == db:
        n = W // sb
        srcW = dstW = W
    elif sb < db:       # widening: W is the destination width; source is half (min 128)
        n = W // db
        dstW = W
        srcW = max(128, n * sb)
    else:               # narrowing: W is the source width; destination is half (min 128), upper lanes zero
        n = W // sb
        srcW = W
        dstW = max(128, n * db)
    args = [(REG[srcW], 'a')]
    val = e
    if mk == 'maskz':
        args = [(ktype(n), 'k')] + args
        val = '((((uint64_t)k >> i) & 1) ? %s : 0)' % e
    body = '  %s r = {{0}};\n  for (int i = 0; i < %d; i++) { %s x = AVM_L%d(a, i); AVM_S%d(r, i, %s); }\n  return r;\n' % (REG[dstW], n, UT[sb], sb, db, val)
    return Model(name, REG[dstW], args, body, deps=['avm_cvt_f2i32'] if 'avm_cvt' in e else [])


@resolver
def r_shuffle_builtins(name):
    def M(ret, args, body, imm=(), deps=()):
        return Model(name, ret, args, body, imm=imm, deps=deps)
    m = re.match(r'^__builtin_ia32_pshufd(256|512)?$', name)
    if m:
        W = int(m.group(1) or 128)
        R = REG[W]
        return M(R, [(R, 'a'), ('int', 'imm')],
                 '  %s r = {{0}};\n  for (int i = 0; i < %d; i++) AVM_S32(r, i, AVM_L32(a, (i & ~3) + ((imm >> (2 * (i & 3))) & 3)));\n  return r;\n' % (R, W // 32), imm=[1])
    m = re.match(r'^__builtin_ia32_pshuf(l|h)w(256|512)?$', name)
    if m:
        W = int(m.group(2) or 128)
        R = REG[W]
        off = 0 if m.group(1) == 'l' else 4
        body = '  %s r = a;\n  for (int blk = 0; blk < %d; blk++) for (int j = 0; j < 4; j++) AVM_S16(r, blk * 8 + %d + j, AVM_L16(a, blk * 8 + %d + ((imm >> (2 * j)) & 3)));\n  return r;\n' % (R, W // 128, off, off)
        return M(R, [(R, 'a'), ('int', 'imm')], body, imm=[1])
    m = re.match(r'^__builtin_ia32_shufps(256|512)?$', name)
    if m:
        W = int(m.group(1) or 128)
        R = REG[W]
        body = ('  %s r = {{0}};\n  for (int blk = 0; blk < %d; blk++) {\n'
                '    AVM_S32(r, blk * 4 + 0, AVM_L32(a, blk * 4 + ((imm >> 0) & 3)));\n    AVM_S32(r, blk * 4 + 1, AVM_L32(a, blk * 4 + ((imm >> 2) & 3)));\n'
                '    AVM_S32(r, blk * 4 + 2, AVM_L32(b, blk * 4 + ((imm >> 4) & 3)));\n    AVM_S32(r, blk * 4 + 3, AVM_L32(b, blk * 4 + ((imm >> 6) & 3)));\n  }\n  return r;\n' % (R, W // 128))
        return M(R, [(R, 'a'), (R, 'b'), ('int', 'imm')], body, imm=[2])
    m = re.match(r'^__builtin_ia32_shufpd(256|512)?$', name)
    if m:
        W = int(m.group(1) or 128)
        R = REG[W]
        body = ('  %s r;\n  for (int blk = 0; blk < %d; blk++) {\n    r.q[blk * 2] = a.q[blk * 2 + ((imm >> (2 * blk)) & 1)];\n'
                '    r.q[blk * 2 + 1] = b.q[blk * 2 + ((imm >> (2 * blk + 1)) & 1)];\n  }\n  return r;\n' % (R, W // 128))
        return M(R, [(R, 'a'), (R, 'b'), ('int', 'imm')], body, imm=[2])
    m = re.match(r'^__builtin_ia32_ps(l|r)ldqi(128|256|512)_byteshift$', name)
    if m:
        W = int(m.group(2))
        R = REG[W]
        if m.group(1) == 'l':
            e = '(j >= k) ? AVM_L8(a, blk * 16 + j - k) : 0'
        else:
            e = '(j + k < 16) ? AVM_L8(a, blk * 16 + j + k) : 0'
        body = '  %s r = {{0}};\n  int k = imm & 0xff; if (k > 16) k = 16;\n  for (int blk = 0; blk < %d; blk++) for (int j = 0; j < 16; j++) AVM_S8(r, blk * 16 + j, %s);\n  return r;\n' % (R, W // 128, e)
        return M(R, [(R, 'a'), ('int', 'imm')], body, imm=[1])
    if name in ('__builtin_ia32_permti256', '__builtin_ia32_vperm2f128_si256', '__builtin_ia32_vperm2f128_ps256', '__builtin_ia32_vperm2f128_pd256'):
        body = ('  m256 r = {{0}};\n  for (int h = 0; h < 2; h++) {\n    int c = (imm >> (4 * h)) & 0xf;\n    if (!(c & 8)) {\n'
                '      m256 s = (c & 2) ? b : a;\n      r.q[2 * h] = s.q[2 * (c & 1)]; r.q[2 * h + 1] = s.q[2 * (c & 1) + 1];\n    }\n  }\n  return r;\n')
        return M('m256', [('m256', 'a'), ('m256', 'b'), ('int', 'imm')], body, imm=[2])
    m = re.match(r'^__builtin_ia32_vpermilps(256|512)?$', name)
    if m:
        W = int(m.group(1) or 128)
        R = REG[W]
        return M(R, [(R, 'a'), ('int', 'imm')],
                 '  %s r = {{0}};\n  for (int i = 0; i < %d; i++) AVM_S32(r, i, AVM_L32(a, (i & ~3) + ((imm >> (2 * (i & 3))) & 3)));\n  return r;\n' % (R, W // 32), imm=[1])
    if name in ('__builtin_ia32_extract128i256', '__builtin_ia32_vextractf128_si256', '__builtin_ia32_vextractf128_ps256', '__builtin_ia32_vextractf128_pd256'):
        return M('m128', [('m256', 'a'), ('int', 'imm')], '  m128 r;\n  r.q[0] = a.q[2 * (imm & 1)]; r.q[1] = a.q[2 * (imm & 1) + 1];\n  return r;\n', imm=[1])
    if name in ('__builtin_ia32_insert128i256', '__builtin_ia32_vinsertf128_si256', '__builtin_ia32_vinsertf128_ps256', '__builtin_ia32_vinsertf128_pd256'):
        return M('m256', [('m256', 'a'), ('m128', 'b'), ('int', 'imm')], '  m256 r = a;\n  r.q[2 * (imm & 1)] = b.q[0]; r.q[2 * (imm & 1) + 1] = b.q[1];\n  return r;\n', imm=[2])
    if name == '__builtin_ia32_extracti32x4_mask' or name == '__builtin_ia32_extractf32x4_mask':
        return M('m128', [('m512', 'a'), ('int', 'imm'), ('m128', 'src'), ('uint8_t', 'k')],
                 '  m128 r = {{0}};\n  for (int i = 0; i < 4; i++) AVM_S32(r, i, ((k >> i) & 1) ? AVM_L32(a, 4 * (imm & 3) + i) : AVM_L32(src, i));\n  return r;\n', imm=[1])
    if name == '__builtin_ia32_extracti64x4_mask' or name == '__builtin_ia32_extractf64x4_mask':
        return M('m256', [('m512', 'a'), ('int', 'imm'), ('m256', 'src'), ('uint8_t', 'k')],
                 '  m256 r;\n  for (int i = 0; i < 4; i++) r.q[i] = ((k >> i) & 1) ? a.q[4 * (imm & 1) + i] : src.q[i];\n  return r;\n', imm=[1])
    if name in ('__builtin_ia32_inserti32x4', '__builtin_ia32_insertf32x4'):
        return M('m512', [('m512', 'a'), ('m128', 'b'), ('int', 'imm')], '  m512 r = a;\n  r.q[2 * (imm & 3)] = b.q[0]; r.q[2 * (imm & 3) + 1] = b.q[1];\n  return r;\n', imm=[2])
    if name in ('__builtin_ia32_inserti64x4', '__builtin_ia32_insertf64x4'):
        return M('m512', [('m512', 'a'), ('m256', 'b'), ('int', 'imm')], '  m512 r = a;\n  for (int i = 0; i < 4; i++) r.q[4 * (imm & 1) + i] = b.q[i];\n  return r;\n', imm=[2])
    if name == '__builtin_ia32_insertps128':
        body = ('  m128 r = a;\n  uint32_t v = AVM_L32(b, (imm >> 6) & 3);\n  AVM_S32(r, (imm >> 4) & 3, v);\n'
                '  for (int i = 0; i < 4; i++) if ((imm >> i) & 1) AVM_S32(r, i, 0);\n  return r;\n')
        return M('m128', [('m128', 'a'), ('m128', 'b'), ('int', 'imm')], body, imm=[2])
    m = re.match(r'^__builtin_ia32_shuf_(i|f)(32x4|64x2)(_256)?$', name)
    if m:
        W = 256 if m.group(3) else 512
        R = REG[W]
        if W == 512:
            body = ('  m512 r;\n  for (int j = 0; j < 4; j++) { m512 s = j < 2 ? a : b; int c = (imm >> (2 * j)) & 3; r.q[2 * j] = s.q[2 * c]; r.q[2 * j + 1] = s.q[2 * c + 1]; }\n  return r;\n')
        else:
            body = ('  m256 r;\n  for (int j = 0; j < 2; j++) { m256 s = j < 1 ? a : b; int c = (imm >> j) & 1; r.q[2 * j] = s.q[2 * c]; r.q[2 * j + 1] = s.q[2 * c + 1]; }\n  return r;\n')
        return M(R, [(R, 'a'), (R, 'b'), ('int', 'imm')], body, imm=[2])
    m = re.match(r'^__builtin_ia32_vec_ext_v(\d+)(di|si|sf|df|hi|qi)$', name)
    if m:
        n = int(m.group(1))
        b = {'di': 64, 'si': 32, 'sf': 32, 'df': 64, 'hi': 16, 'qi': 8}[m.group(2)]
        R = REG[n * b]
        rt = {'di': 'long long', 'si': 'int', 'sf': 'float', 'df': 'double', 'hi': 'short', 'qi': 'char'}[m.group(2)]
        e = 'AVM_L%d(a, idx & %d)' % (b, n - 1)
        if m.group(2) == 'sf':
            e = 'avm_u2f(%s)' % e
        elif m.group(2) == 'df':
            e = 'avm_u2d(%s)' % e
        else:
            e = '(%s)%s' % (rt, e)
        return M(rt, [(R, 'a'), ('int', 'idx')], '  return %s;\n' % e, imm=[1])
    m = re.match(r'^__builtin_ia32_vec_set_v(\d+)(di|si|hi|qi)$', name)
    if m:
        n = int(m.group(1))
        b = {'di': 64, 'si': 32, 'hi': 16, 'qi': 8}[m.group(2)]
        R = REG[n * b]
        xt = {'di': 'long long', 'si': 'int', 'hi': 'short', 'qi': 'char'}[m.group(2)]
        return M(R, [(R, 'a'), (xt, 'x'), ('int', 'idx')], '  %s r = a;\n  AVM_S%d(r, idx & %d, (%s)x);\n  return r;\n' % (R, b, n - 1, UT[b]), imm=[2])
    m = re.match(r'^__builtin_ia32_select(ps|pd|d|q|w|b)_(128|256|512)$', name)
    if m:
        W = int(m.group(2))
        b = {'ps': 32, 'pd': 64, 'd': 32, 'q': 64, 'w': 16, 'b': 8}[m.group(1)]
        R = REG[W]
        n = W // b
        return M(R, [(ktype(n), 'k'), (R, 'a'), (R, 'b')],
                 '  %s r = {{0}};\n  for (int i = 0; i < %d; i++) AVM_S%d(r, i, (((uint64_t)k >> i) & 1) ? AVM_L%d(a, i) : AVM_L%d(b, i));\n  return r;\n' % (R, n, b, b, b))
    m = re.match(r'^__builtin_ia32_(add|sub|mul|div)p(s|d)512$', name)
    if m:
        b = 32 if m.group(2) == 's' else 64
        op = {'add': '+', 'sub': '-', 'mul': '*', 'div': '/'}[m.group(1)]
        cv, st = ('avm_u2f', 'avm_f2u') if b == 32 else ('avm_u2d', 'avm_d2u')
        xa, xb = '%s(AVM_L%d(a, i))' % (cv, b), '%s(AVM_L%d(b, i))' % (cv, b)
        fexpr = 'AVM_%s_f%d(%s, %s)' % ({'*': 'FMUL', '/': 'FDIV', '+': 'FADD', '-': 'FSUB'}[op], b, xa, xb)
        # rounding argument {er}: 4 = current direction (MXCSR.RC); 8..11 = static rounding mode in bits 1:0 with exceptions
        # suppressed (countl_zero & co. of the AVX-512F-without-CD branches use _MM_FROUND_TO_ZERO | _MM_FROUND_NO_EXC)
        body = ('  int er_saved = avm_er_enter(rounding);\n'
                '  m512 r = {{0}};\n  for (int i = 0; i < %d; i++) AVM_S%d(r, i, %s(%s));\n  avm_er_leave(er_saved);\n  return r;\n' % (512 // b, b, st, fexpr))
        return M('m512', [('m512', 'a'), ('m512', 'b'), ('int', 'rounding')], body, imm=[2])
    if name == '__builtin_ia32_cvtudq2ps512_mask':
        body = ('  int er_saved = avm_er_enter(rounding);\n'
                '  m512 r = {{0}};\n  for (int i = 0; i < 16; i++) { AVM_VOL uint32_t x = AVM_L32(a, i); AVM_S32(r, i, ((k >> i) & 1) ? avm_f2u((float)x) : AVM_L32(src, i)); }\n  avm_er_leave(er_saved);\n  return r;\n')
        return M('m512', [('m512', 'a'), ('m512', 'src'), ('uint16_t', 'k'), ('int', 'rounding')], body, imm=[3])
    if name == '__builtin_ia32_cvtuqq2pd512_mask':
        body = ('  int er_saved = avm_er_enter(rounding);\n'
                '  m512 r;\n  for (int i = 0; i < 8; i++) { AVM_VOL uint64_t x = a.q[i]; r.q[i] = ((k >> i) & 1) ? avm_d2u((double)x) : src.q[i]; }\n  avm_er_leave(er_saved);\n  return r;\n')
        return M('m512', [('m512', 'a'), ('m512', 'src'), ('uint8_t', 'k'), ('int', 'rounding')], body, imm=[3])
    m = re.match(r'^__builtin_ia32_pternlog(d|q)(128|256|512)_mask$', name)
    if m:
        W = int(m.group(2))
        b = 32 if m.group(1) == 'd' else 64
        R = REG[W]
        n = W // b
        body = ('  %s r = {{0}};\n  for (int i = 0; i < %d; i++) {\n    %s x = AVM_L%d(a, i), y = AVM_L%d(b, i), z = AVM_L%d(c, i), o = 0;\n'
                '    for (int j = 0; j < %d; j++) { int idx = (int)((((x >> j) & 1) << 2) | (((y >> j) & 1) << 1) | ((z >> j) & 1)); o |= (%s)((imm >> idx) & 1) << j; }\n'
                '    AVM_S%d(r, i, (((uint64_t)k >> i) & 1) ? o : x);\n  }\n  return r;\n' % (R, n, UT[b], b, b, b, b, UT[b], b))
        return M(R, [(R, 'a'), (R, 'b'), (R, 'c'), ('int', 'imm'), (ktype(n), 'k')], body, imm=[3])
    m = re.match(r'^__builtin_ia32_vpsh(l|r)d(w|d|q)(128|256|512)$', name)
    if m:
        W = int(m.group(3))
        b = {'w': 16, 'd': 32, 'q': 64}[m.group(2)]
        R = REG[W]
        n = W // b
        if b < 64:
            if m.group(1) == 'l':
                e = '(%s)((((uint64_t)x << %d) | (uint64_t)y) << (imm & %d) >> %d)' % (UT[b], b, b - 1, b)
            else:
                e = '(%s)((((uint64_t)y << %d) | (uint64_t)x) >> (imm & %d))' % (UT[b], b, b - 1)
        else:
            if m.group(1) == 'l':
                e = '((imm & 63) ? ((x << (imm & 63)) | (y >> (64 - (imm & 63)))) : x)'
            else:
                e = '((imm & 63) ? ((x >> (imm & 63)) | (y << (64 - (imm & 63)))) : x)'
        body = '  %s r = {{0}};\n  for (int i = 0; i < %d; i++) { %s x = AVM_L%d(a, i), y = AVM_L%d(b, i); AVM_S%d(r, i, %s); }\n  return r;\n' % (R, n, UT[b], b, b, b, e)
        return M(R, [(R, 'a'), (R, 'b'), ('int', 'imm')], body, imm=[2])
    m = re.match(r'^__builtin_ia32_vgf2p8affineqb_v(16|32|64)qi$', name)
    if m:
        W = int(m.group(1)) * 8
        R = REG[W]
        # SDM GF2P8AFFINEQB: for each byte x of src1 and the qword A of src2 in the same 64-bit lane:
        #   out.bit[i] = parity(A.byte[7-i] AND x) XOR imm8.bit[i]
        body = ('  %s r = {{0}};\n  for (int j = 0; j < %d; j++) {\n    uint64_t A = b.q[j];\n    for (int k = 0; k < 8; k++) {\n'
                '      uint8_t x = AVM_L8(a, j * 8 + k), o = 0;\n'
                '      for (int i = 0; i < 8; i++) { uint8_t row = (uint8_t)(A >> (8 * (7 - i))); uint8_t t = row & x; t ^= t >> 4; t ^= t >> 2; t ^= t >> 1; o |= (uint8_t)(((t ^ (imm >> i)) & 1) << i); }\n'
                '      AVM_S8(r, j * 8 + k, o);\n    }\n  }\n  return r;\n' % (R, W // 64))
        return M(R, [(R, 'a'), (R, 'b'), ('int', 'imm')], body, imm=[2])
    m = re.match(r'^_mm(256|512)?_permutex2var_epi(8|16|32|64)$', name)
    if m:
        W = int(m.group(1) or 128)
        b = int(m.group(2))
        R = REG[W]
        n = W // b
        body = ('  %s r = {{0}};\n  for (int i = 0; i < %d; i++) { unsigned s = (unsigned)(AVM_L%d(idx, i) & %d); '
                'AVM_S%d(r, i, (s & %d) ? AVM_L%d(b, s & %d) : AVM_L%d(a, s & %d)); }\n  return r;\n' % (R, n, b, 2 * n - 1, b, n, b, n - 1, b, n - 1))
        return M(R, [(R, 'a'), (R, 'idx'), (R, 'b')], body)
    m = re.match(r'^_mm(256|512)?_permutexvar_epi(8|16|32|64)$', name)
    if m:
        W = int(m.group(1) or 128)
        b = int(m.group(2))
        R = REG[W]
        n = W // b
        return M(R, [(R, 'idx'), (R, 'a')], '  %s r = {{0}};\n  for (int i = 0; i < %d; i++) AVM_S%d(r, i, AVM_L%d(a, AVM_L%d(idx, i) & %d));\n  return r;\n' % (R, n, b, b, b, n - 1))
    return None


# ---- gathers / scatters: only active lanes are accessed (hardware gathers use the mask, fault suppression) ----
@resolver
def r_gather_scatter(name):
    G = {
        # AVX2 forms: (src, base, index, mask vector, scale)
        '__builtin_ia32_gatherd_d': (128, 32, 32, 4), '__builtin_ia32_gatherd_d256': (256, 32, 32, 8),
        '__builtin_ia32_gatherd_ps': (128, 32, 32, 4), '__builtin_ia32_gatherd_ps256': (256, 32, 32, 8),
        '__builtin_ia32_gatherq_q': (128, 64, 64, 2), '__builtin_ia32_gatherq_q256': (256, 64, 64, 4),
        '__builtin_ia32_gatherq_pd': (128, 64, 64, 2), '__builtin_ia32_gatherq_pd256': (256, 64, 64, 4),
        '__builtin_ia32_gatherd_q': (128, 64, 32, 2), '__builtin_ia32_gatherd_q256': (256, 64, 32, 4),
        '__builtin_ia32_gatherd_pd': (128, 64, 32, 2), '__builtin_ia32_gatherd_pd256': (256, 64, 32, 4),
    }
    if name in G:
        W, eb, ib, n = G[name]
        R = REG[W]
        IR = REG[max(128, n * ib)]
        body = ('  %s r = {{0}};\n  for (int i = 0; i < %d; i++) {\n    if (AVM_L%d(m, i) >> %d) {\n'
                '      const char* addr = (const char*)base + (int64_t)(%s)AVM_L%d(idx, i) * (int64_t)scale;\n'
                '      AVM_S%d(r, i, *(const %s*)addr);\n    } else AVM_S%d(r, i, AVM_L%d(src, i));\n  }\n  return r;\n'
                % (R, n, eb, eb - 1, ST[ib], ib, eb, UT[eb], eb, eb))
        return Model(name, R, [(R, 'src'), ('const void*', 'base'), (IR, 'idx'), (R, 'm'), ('int', 'scale')], body, imm=[4], mem=True)
    # AVX-512 forms: gather3siv4si (src, base, index, kmask, scale), gathersiv16si, gatherdiv8di ...
    m = re.match(r'^__builtin_ia32_gather(3)?(siv|div)(\d+)(si|sf|di|df)$', name)
    if m:
        n = int(m.group(3))
        eb = 32 if m.group(4) in ('si', 'sf') else 64
        ib = 32 if m.group(2) == 'siv' else 64
        R = REG[max(128, n * eb)]
        IR = REG[max(128, n * ib)]
        body = ('  %s r = {{0}};\n  for (int i = 0; i < %d; i++) {\n    if (((uint64_t)k >> i) & 1) {\n'
                '      const char* addr = (const char*)base + (int64_t)(%s)AVM_L%d(idx, i) * (int64_t)scale;\n'
                '      AVM_S%d(r, i, *(const %s*)addr);\n    } else AVM_S%d(r, i, AVM_L%d(src, i));\n  }\n  return r;\n'
                % (R, n, ST[ib], ib, eb, UT[eb], eb, eb))
        return Model(name, R, [(R, 'src'), ('const void*', 'base'), (IR, 'idx'), (ktype(n), 'k'), ('int', 'scale')], body, imm=[4], mem=True)
    m = re.match(r'^__builtin_ia32_scatter(siv|div)(\d+)(si|sf|di|df)$', name)
    if m:
        n = int(m.group(2))
        eb = 32 if m.group(3) in ('si', 'sf') else 64
        ib = 32 if m.group(1) == 'siv' else 64
        R = REG[max(128, n * eb)]
        IR = REG[max(128, n * ib)]
        body = ('  for (int i = 0; i < %d; i++) {\n    if (((uint64_t)k >> i) & 1) {\n'
                '      char* addr = (char*)base + (int64_t)(%s)AVM_L%d(idx, i) * (int64_t)scale;\n'
                '      *(%s*)addr = AVM_L%d(a, i);\n    }\n  }\n' % (n, ST[ib], ib, UT[eb], eb))
        return Model(name, 'void', [('void*', 'base'), (ktype(n), 'k'), (IR, 'idx'), (R, 'a'), ('int', 'scale')], body, imm=[4], mem=True)
    return None



# =====================================================================================================
# part 3: remaining shuffles / rotates by immediate, and the AVX-512 / SSE4.1 floating-point specials
# =====================================================================================================
@resolver
def r_misc_imm(name):
    m = re.match(r'^__builtin_ia32_pro(l|r)(d|q)(128|256|512)$', name)
    if m:
        W = int(m.group(3))
        b = 32 if m.group(2) == 'd' else 64
        R = REG[W]
        if m.group(1) == 'l':
            e = 's == 0 ? x : (%s)((x << s) | (x >> (%d - s)))' % (UT[b], b)
        else:
            e = 's == 0 ? x : (%s)((x >> s) | (x << (%d - s)))' % (UT[b], b)
        body = '  %s r = {{0}};\n  unsigned s = (unsigned)imm & %d;\n  for (int i = 0; i < %d; i++) { %s x = AVM_L%d(a, i); AVM_S%d(r, i, %s); }\n  return r;\n' % (R, b - 1, W // b, UT[b], b, b, e)
        return Model(name, R, [(R, 'a'), ('int', 'imm')], body, imm=[1])
    m = re.match(r'^__builtin_ia32_blendp(s|d)(256)?$', name)
    if m:
        W = int(m.group(2) or 128)
        b = 32 if m.group(1) == 's' else 64
        R = REG[W]
        body = '  %s r = {{0}};\n  for (int i = 0; i < %d; i++) AVM_S%d(r, i, ((imm >> i) & 1) ? AVM_L%d(b, i) : AVM_L%d(a, i));\n  return r;\n' % (R, W // b, b, b, b)
        return Model(name, R, [(R, 'a'), (R, 'b'), ('int', 'imm')], body, imm=[2])
    m = re.match(r'^__builtin_ia32_pblend(w|d)(128|256)$', name)
    if m:
        W = int(m.group(2))
        b = 16 if m.group(1) == 'w' else 32
        R = REG[W]
        sel = '(imm >> (i & 7)) & 1' if b == 16 else '(imm >> i) & 1'
        body = '  %s r = {{0}};\n  for (int i = 0; i < %d; i++) AVM_S%d(r, i, (%s) ? AVM_L%d(b, i) : AVM_L%d(a, i));\n  return r;\n' % (R, W // b, b, sel, b, b)
        return Model(name, R, [(R, 'a'), (R, 'b'), ('int', 'imm')], body, imm=[2])
    if name == '_mm_move_sd':
        return Model(name, 'm128', [('m128', 'a'), ('m128', 'b')], '  m128 r = a;\n  r.q[0] = b.q[0];\n  return r;\n')
    if name == '_mm_move_ss':
        return Model(name, 'm128', [('m128', 'a'), ('m128', 'b')], '  m128 r = a;\n  AVM_S32(r, 0, AVM_L32(b, 0));\n  return r;\n')
    if name == '_mm_move_epi64':
        return Model(name, 'm128', [('m128', 'a')], '  m128 r = {{0}};\n  r.q[0] = a.q[0];\n  return r;\n')
    return None


helper('avm_fp', r"""/* ---- IEEE helpers for the floating-point special instructions (bit level) ---- */
#ifdef AVM_NATIVE
#include <fenv.h>
static inline float __CPROVER_round_to_integralf(float x, int m) {
  int old = fegetround(); fesetround(m == 0 ? FE_TONEAREST : m == 1 ? FE_DOWNWARD : m == 2 ? FE_UPWARD : FE_TOWARDZERO);
  volatile float v = x; float r = nearbyintf(v); fesetround(old); return r; }
static inline double __CPROVER_round_to_integrald(double x, int m) {
  int old = fegetround(); fesetround(m == 0 ? FE_TONEAREST : m == 1 ? FE_DOWNWARD : m == 2 ? FE_UPWARD : FE_TOWARDZERO);
  volatile double v = x; double r = nearbyint(v); fesetround(old); return r; }
static inline int avm_cur_rm(void) { int m = fegetround(); return m == FE_TONEAREST ? 0 : m == FE_DOWNWARD ? 1 : m == FE_UPWARD ? 2 : 3; }
#else
static inline int avm_cur_rm(void) { return __CPROVER_rounding_mode; }
#endif
static inline uint32_t avm_qnan32(uint32_t u) { return u | 0x00400000u; }
static inline uint64_t avm_qnan64(uint64_t u) { return u | 0x0008000000000000ull; }
static inline int avm_isnan32(uint32_t u) { return (u & 0x7fffffffu) > 0x7f800000u; }
static inline int avm_isnan64(uint64_t u) { return (u & 0x7fffffffffffffffull) > 0x7ff0000000000000ull; }
/* ROUNDPS / VRNDSCALEPS with scale 0: imm[1:0] rounding control, imm[2] = use MXCSR.RC */
static inline uint32_t avm_round32(uint32_t u, int imm) {
  if (avm_isnan32(u)) return avm_qnan32(u);
  int m = (imm & 4) ? avm_cur_rm() : (imm & 3);
  return avm_f2u(__CPROVER_round_to_integralf(avm_u2f(u), m));
}
static inline uint64_t avm_round64(uint64_t u, int imm) {
  if (avm_isnan64(u)) return avm_qnan64(u);
  int m = (imm & 4) ? avm_cur_rm() : (imm & 3);
  return avm_d2u(__CPROVER_round_to_integrald(avm_u2d(u), m));
}
/* VGETEXP: floor(log2|x|) as a float; denormals are normalised first; 0 -> -inf, inf -> +inf, NaN -> QNaN */
static inline uint32_t avm_getexp32(uint32_t u) {
  if (avm_isnan32(u)) return avm_qnan32(u);
  uint32_t e = (u >> 23) & 0xff, f = u & 0x7fffffu;
  if (e == 0xff) return 0x7f800000u;
  if (e == 0 && f == 0) return 0xff800000u;
  int32_t ex = (int32_t)e - 127;
  if (e == 0) { ex = -126; for (int i = 0; i < 23; i++) { if (f & 0x400000u) break; f <<= 1; ex--; } ex--; }
  return avm_f2u((float)ex);
}
static inline uint64_t avm_getexp64(uint64_t u) {
  if (avm_isnan64(u)) return avm_qnan64(u);
  uint64_t e = (u >> 52) & 0x7ff, f = u & 0xfffffffffffffull;
  if (e == 0x7ff) return 0x7ff0000000000000ull;
  if (e == 0 && f == 0) return 0xfff0000000000000ull;
  int32_t ex = (int32_t)e - 1023;
  if (e == 0) { ex = -1022; for (int i = 0; i < 52; i++) { if (f & 0x8000000000000ull) break; f <<= 1; ex--; } ex--; }
  return avm_d2u((double)ex);
}
/* VGETMANT (SDM GetNormalizeMantissa); imm[1:0] interval, imm[3:2] sign control */
static inline uint32_t avm_getmant32(uint32_t u, int imm) {
  int interv = imm & 3, sc = (imm >> 2) & 3;
  uint32_t sign = (sc & 1) ? 0 : (u >> 31), e = (u >> 23) & 0xff, f = u & 0x7fffffu;
  if (avm_isnan32(u)) return avm_qnan32(u);
  if ((u >> 31) && (sc & 2) && !(e == 0 && f == 0)) return 0xffc00000u;   /* negative source with SignCtrl[1]: QNaN indefinite */
  int32_t ex = (int32_t)e;
  if (e == 0xff || (e == 0 && f == 0)) return (sign << 31) | 0x3f800000u;   /* zero / infinity: +-1.0 whatever the interval (hardware) */
  else if (e == 0) { ex = 1; for (int i = 0; i < 23; i++) { if (f & 0x800000u) break; f <<= 1; ex--; } f &= 0x7fffffu; }
  int odd = (ex - 127) & 1;
  uint32_t ne = 127;
  if (interv == 1) ne = odd ? 126 : 127; else if (interv == 2) ne = 126; else if (interv == 3) ne = (f & 0x400000u) ? 126 : 127;
  return (sign << 31) | (ne << 23) | f;
}
static inline uint64_t avm_getmant64(uint64_t u, int imm) {
  int interv = imm & 3, sc = (imm >> 2) & 3;
  uint64_t sign = (sc & 1) ? 0 : (u >> 63), e = (u >> 52) & 0x7ff, f = u & 0xfffffffffffffull;
  if (avm_isnan64(u)) return avm_qnan64(u);
  if ((u >> 63) && (sc & 2) && !(e == 0 && f == 0)) return 0xfff8000000000000ull;
  int32_t ex = (int32_t)e;
  if (e == 0x7ff || (e == 0 && f == 0)) return (sign << 63) | 0x3ff0000000000000ull;
  else if (e == 0) { ex = 1; for (int i = 0; i < 52; i++) { if (f & 0x10000000000000ull) break; f <<= 1; ex--; } f &= 0xfffffffffffffull; }
  int odd = (ex - 1023) & 1;
  uint64_t ne = 1023;
  if (interv == 1) ne = odd ? 1022 : 1023; else if (interv == 2) ne = 1022; else if (interv == 3) ne = (f & 0x8000000000000ull) ? 1022 : 1023;
  return (sign << 63) | (ne << 52) | f;
}
/* VSCALEF: a * 2^floor(b) with the SDM special-case table */
static inline uint32_t avm_scalef32(uint32_t ua, uint32_t ub) {
  /* NaN handling as measured on hardware / SDM table: SNaN src1 -> QNaN(src1); NaN src2 -> src1 if NaN else QNaN(src2);
     QNaN src1 with +Inf src2 -> +Inf, with -Inf src2 -> +0, otherwise src1 */
  if (avm_isnan32(ua) && !(ua & 0x400000u)) return avm_qnan32(ua);
  if (avm_isnan32(ub)) return avm_isnan32(ua) ? ua : avm_qnan32(ub);
  if (avm_isnan32(ua)) return ub == 0x7f800000u ? 0x7f800000u : (ub == 0xff800000u ? 0u : ua);
  uint32_t sa = ua & 0x80000000u;
  int a_inf = (ua & 0x7fffffffu) == 0x7f800000u, a_zero = (ua & 0x7fffffffu) == 0;
  if (ub == 0x7f800000u) return a_zero ? 0xffc00000u : (sa | 0x7f800000u);
  if (ub == 0xff800000u) return a_inf ? 0xffc00000u : sa;
  if (a_inf || a_zero) return ua;
  float fb = __CPROVER_round_to_integralf(avm_u2f(ub), 1);
  int32_t k = fb > 400.0f ? 400 : (fb < -400.0f ? -400 : (int32_t)fb);
  double p = avm_u2d((uint64_t)(1023 + k) << 52);
  return avm_f2u((float)((double)avm_u2f(ua) * p));
}
static inline uint64_t avm_scalef64(uint64_t ua, uint64_t ub) {
  if (avm_isnan64(ua) && !(ua & 0x8000000000000ull)) return avm_qnan64(ua);
  if (avm_isnan64(ub)) return avm_isnan64(ua) ? ua : avm_qnan64(ub);
  if (avm_isnan64(ua)) return ub == 0x7ff0000000000000ull ? 0x7ff0000000000000ull : (ub == 0xfff0000000000000ull ? 0ull : ua);
  uint64_t sa = ua & 0x8000000000000000ull;
  int a_inf = (ua << 1) == 0xffe0000000000000ull, a_zero = (ua << 1) == 0;
  if (ub == 0x7ff0000000000000ull) return a_zero ? 0xfff8000000000000ull : (sa | 0x7ff0000000000000ull);
  if (ub == 0xfff0000000000000ull) return a_inf ? 0xfff8000000000000ull : sa;
  if (a_inf || a_zero) return ua;
  double fb = __CPROVER_round_to_integrald(avm_u2d(ub), 1);
  int32_t k = fb > 2400.0 ? 2400 : (fb < -2400.0 ? -2400 : (int32_t)fb);
  /* two exact power-of-two steps followed by one rounding step would double-round in the subnormal range;
     scale in three factors whose product never leaves the double range until the last, which rounds once */
  double x = avm_u2d(ua);
  int32_t k1 = k / 3, k2 = k / 3, k3 = k - k1 - k2;
  /* |k/3| <= 800: 2^k1 representable; x*2^k1*2^k2 is exact unless it overflows/underflows, in which case the final result is the same limit */
  long double lx = (long double)x;
  long double p1 = (long double)avm_u2d((uint64_t)(1023 + k1) << 52), p2 = (long double)avm_u2d((uint64_t)(1023 + k2) << 52), p3 = (long double)avm_u2d((uint64_t)(1023 + k3) << 52);
  return avm_d2u((double)(lx * p1 * p2 * p3));
}
/* VFPCLASS */
static inline int avm_fpclass32(uint32_t u, int imm) {
  uint32_t e = (u >> 23) & 0xff, f = u & 0x7fffffu, s = u >> 31;
  int qnan = e == 0xff && (f & 0x400000u), snan = e == 0xff && f != 0 && !(f & 0x400000u);
  int zero = e == 0 && f == 0, inf = e == 0xff && f == 0, den = e == 0 && f != 0;
  int negfin = s && e != 0xff && !zero;
  return ((imm & 1) && qnan) || ((imm & 2) && zero && !s) || ((imm & 4) && zero && s) || ((imm & 8) && inf && !s)
      || ((imm & 16) && inf && s) || ((imm & 32) && den) || ((imm & 64) && negfin) || ((imm & 128) && snan);
}
static inline int avm_fpclass64(uint64_t u, int imm) {
  uint64_t e = (u >> 52) & 0x7ff, f = u & 0xfffffffffffffull, s = u >> 63;
  int qnan = e == 0x7ff && (f & 0x8000000000000ull) != 0, snan = e == 0x7ff && f != 0 && !(f & 0x8000000000000ull);
  int zero = e == 0 && f == 0, inf = e == 0x7ff && f == 0, den = e == 0 && f != 0;
  int negfin = s && e != 0x7ff && !zero;
  return ((imm & 1) && qnan) || ((imm & 2) && zero && !s) || ((imm & 4) && zero && s) || ((imm & 8) && inf && !s)
      || ((imm & 16) && inf && s) || ((imm & 32) && den) || ((imm & 64) && negfin) || ((imm & 128) && snan);
}
/* VFIXUPIMM: response selected by the class of src2 (b) from the 32-bit table lane */
static inline uint32_t avm_fixup32(uint32_t dst, uint32_t b, uint32_t tbl) {
  uint32_t e = (b >> 23) & 0xff, f = b & 0x7fffffu, s = b >> 31;
  int cls;
  if (e == 0xff && f != 0) cls = (f & 0x400000u) ? 0 : 1;
  else if (e == 0 && f == 0) cls = 2;
  else if (b == 0x3f800000u) cls = 3;
  else if (e == 0xff) cls = s ? 4 : 5;
  else cls = s ? 6 : 7;
  switch ((tbl >> (4 * cls)) & 0xf) {
    case 0: return dst;            case 1: return b;                 case 2: return b | 0x7fc00000u; case 3: return 0xffc00000u;
    case 4: return 0xff800000u;    case 5: return 0x7f800000u;       case 6: return (s << 31) | 0x7f800000u; case 7: return 0x80000000u;
    case 8: return 0;              case 9: return 0xbf800000u;       case 10: return 0x3f800000u;   case 11: return 0x3f000000u;
    case 12: return 0x42b40000u;   case 13: return 0x3fc90fdbu;      case 14: return 0x7f7fffffu;   default: return 0xff7fffffu;
  }
}
static inline uint64_t avm_fixup64(uint64_t dst, uint64_t b, uint64_t tbl) {
  uint64_t e = (b >> 52) & 0x7ff, f = b & 0xfffffffffffffull, s = b >> 63;
  int cls;
  if (e == 0x7ff && f != 0) cls = (f & 0x8000000000000ull) ? 0 : 1;
  else if (e == 0 && f == 0) cls = 2;
  else if (b == 0x3ff0000000000000ull) cls = 3;
  else if (e == 0x7ff) cls = s ? 4 : 5;
  else cls = s ? 6 : 7;
  switch ((tbl >> (4 * cls)) & 0xf) {
    case 0: return dst;            case 1: return b;                 case 2: return b | 0x7ff8000000000000ull; case 3: return 0xfff8000000000000ull;
    case 4: return 0xfff0000000000000ull; case 5: return 0x7ff0000000000000ull; case 6: return (s << 63) | 0x7ff0000000000000ull; case 7: return 0x8000000000000000ull;
    case 8: return 0;              case 9: return 0xbff0000000000000ull; case 10: return 0x3ff0000000000000ull; case 11: return 0x3fe0000000000000ull;
    case 12: return 0x4056800000000000ull; case 13: return 0x3ff921fb54442d18ull; case 14: return 0x7fefffffffffffffull; default: return 0xffefffffffffffffull;
  }
}
/* VRANGE: imm[1:0] 0 min, 1 max, 2 abs-min, 3 abs-max; imm[3:2] sign control */
static inline uint32_t avm_range32(uint32_t a, uint32_t b, int imm) {
  int op = imm & 3, sc = (imm >> 2) & 3;
  if (avm_isnan32(a) && !(a & 0x400000u)) return avm_qnan32(a);
  if (avm_isnan32(b) && !(b & 0x400000u)) return avm_qnan32(b);
  uint32_t ma = a & 0x7fffffffu, mb = b & 0x7fffffffu, t;
  float fa = avm_u2f(a), fb = avm_u2f(b);
  /* QNaN operands: select (a if both NaN, else the non-NaN one); the sign control still applies (hardware) */
  if (avm_isnan32(a)) t = avm_isnan32(b) ? a : b;
  else if (avm_isnan32(b)) t = a;
  else if (op < 2) {
    int a_le;                     /* total order on values, with -0 < +0 */
    if (fa == fb) a_le = (a >> 31) >= (b >> 31); else a_le = fa < fb;
    t = (op == 0) ? (a_le ? a : b) : (a_le ? b : a);
  } else {
    int a_le;
    if (ma == mb) a_le = (a >> 31) >= (b >> 31); else a_le = ma < mb;
    t = (op == 2) ? (a_le ? a : b) : (a_le ? b : a);
  }
  switch (sc) { case 0: return (a & 0x80000000u) | (t & 0x7fffffffu); case 1: return t; case 2: return t & 0x7fffffffu; default: return t | 0x80000000u; }
}
static inline uint64_t avm_range64(uint64_t a, uint64_t b, int imm) {
  int op = imm & 3, sc = (imm >> 2) & 3;
  const uint64_t Q = 0x8000000000000ull, SB = 0x8000000000000000ull;
  if (avm_isnan64(a) && !(a & Q)) return avm_qnan64(a);
  if (avm_isnan64(b) && !(b & Q)) return avm_qnan64(b);
  uint64_t ma = a & ~SB, mb = b & ~SB, t;
  double fa = avm_u2d(a), fb = avm_u2d(b);
  if (avm_isnan64(a)) t = avm_isnan64(b) ? a : b;
  else if (avm_isnan64(b)) t = a;
  else if (op < 2) {
    int a_le;
    if (fa == fb) a_le = (a >> 63) >= (b >> 63); else a_le = fa < fb;
    t = (op == 0) ? (a_le ? a : b) : (a_le ? b : a);
  } else {
    int a_le;
    if (ma == mb) a_le = (a >> 63) >= (b >> 63); else a_le = ma < mb;
    t = (op == 2) ? (a_le ? a : b) : (a_le ? b : a);
  }
  switch (sc) { case 0: return (a & SB) | (t & ~SB); case 1: return t; case 2: return t & ~SB; default: return t | SB; }
}
""")


@resolver
def r_fp_special(name):
    def lanes(W, b, args, expr, imm=(), extra=''):
        R = REG[W]
        n = W // b
        return Model(name, R, args, '%s  %s r = {{0}};\n  for (int i = 0; i < %d; i++) AVM_S%d(r, i, %s);\n  return r;\n' % (extra, R, n, b, expr),
                     deps=['avm_fp'], imm=imm)
    m = re.match(r'^__builtin_ia32_roundp(s|d)(256)?$', name)
    if m:
        W = int(m.group(2) or 128)
        b = 32 if m.group(1) == 's' else 64
        return lanes(W, b, [(REG[W], 'a'), ('int', 'imm')], 'avm_round%d(AVM_L%d(a, i), imm)' % (b, b), imm=[1])
    m = re.match(r'^__builtin_ia32_rndscalep(s|d)(_128|_256)?_mask$', name)
    if m:
        W = {None: 512, '_128': 128, '_256': 256}[m.group(2)]
        b = 32 if m.group(1) == 's' else 64
        n = W // b
        args = [(REG[W], 'a'), ('int', 'imm'), (REG[W], 'src'), (ktype(n), 'k')] + ([('int', 'rounding')] if W == 512 else [])
        extra = '  __CPROVER_assert((imm >> 4) == 0, "model: VRNDSCALE with a non-zero scale is not modelled");\n'
        return lanes(W, b, args, '(((uint64_t)k >> i) & 1) ? avm_round%d(AVM_L%d(a, i), imm) : AVM_L%d(src, i)' % (b, b, b),
                     imm=[1] + ([4] if W == 512 else []), extra=extra)
    m = re.match(r'^_mm(256|512)?_(mask_|maskz_)?getexp_(ps|pd)$', name)
    if m and not m.group(2):
        W = int(m.group(1) or 128)
        b = 32 if m.group(3) == 'ps' else 64
        return lanes(W, b, [(REG[W], 'a')], 'avm_getexp%d(AVM_L%d(a, i))' % (b, b))
    m = re.match(r'^_mm(256|512)?_(mask_|maskz_)?scalef_(ps|pd)$', name)
    if m and not m.group(2):
        W = int(m.group(1) or 128)
        b = 32 if m.group(3) == 'ps' else 64
        return lanes(W, b, [(REG[W], 'a'), (REG[W], 'b')], 'avm_scalef%d(AVM_L%d(a, i), AVM_L%d(b, i))' % (b, b, b))
    m = re.match(r'^__builtin_ia32_getmantp(s|d)(128|256|512)_mask$', name)
    if m:
        W = int(m.group(2))
        b = 32 if m.group(1) == 's' else 64
        n = W // b
        args = [(REG[W], 'a'), ('int', 'imm'), (REG[W], 'src'), (ktype(n), 'k')] + ([('int', 'rounding')] if W == 512 else [])
        return lanes(W, b, args, '(((uint64_t)k >> i) & 1) ? avm_getmant%d(AVM_L%d(a, i), imm) : AVM_L%d(src, i)' % (b, b, b),
                     imm=[1] + ([4] if W == 512 else []))
    m = re.match(r'^__builtin_ia32_fixupimmp(s|d)(128|256|512)_mask$', name)
    if m:
        W = int(m.group(2))
        b = 32 if m.group(1) == 's' else 64
        n = W // b
        args = [(REG[W], 'a'), (REG[W], 'b'), (REG[W], 'c'), ('int', 'imm'), (ktype(n), 'k')] + ([('int', 'rounding')] if W == 512 else [])
        return lanes(W, b, args, '(((uint64_t)k >> i) & 1) ? avm_fixup%d(AVM_L%d(a, i), AVM_L%d(b, i), AVM_L%d(c, i)) : AVM_L%d(a, i)' % (b, b, b, b, b),
                     imm=[3] + ([5] if W == 512 else []))
    m = re.match(r'^__builtin_ia32_rangep(s|d)(128|256|512)_mask$', name)
    if m:
        W = int(m.group(2))
        b = 32 if m.group(1) == 's' else 64
        n = W // b
        args = [(REG[W], 'a'), (REG[W], 'b'), ('int', 'imm'), (REG[W], 'src'), (ktype(n), 'k')] + ([('int', 'rounding')] if W == 512 else [])
        return lanes(W, b, args, '(((uint64_t)k >> i) & 1) ? avm_range%d(AVM_L%d(a, i), AVM_L%d(b, i), imm) : AVM_L%d(src, i)' % (b, b, b, b),
                     imm=[2] + ([5] if W == 512 else []))
    m = re.match(r'^__builtin_ia32_fpclassp(s|d)(128|256|512)_mask$', name)
    if m:
        W = int(m.group(2))
        b = 32 if m.group(1) == 's' else 64
        n = W // b
        body = '  uint64_t r = 0;\n  for (int i = 0; i < %d; i++) r |= (uint64_t)(avm_fpclass%d(AVM_L%d(a, i), imm) != 0) << i;\n  return (%s)(r & (uint64_t)k);\n' % (n, b, b, ktype(n))
        return Model(name, ktype(n), [(REG[W], 'a'), ('int', 'imm'), (ktype(n), 'k')], body, deps=['avm_fp'], imm=[1])
    return None


def model_for(name):
    for r in RESOLVERS:
        m = r(name)
        if m is not None:
            return m
    return None


def text_for(names):
    """C text of the models for `names` (with helper functions), plus the list of names without a model"""
    out = []
    missing = []
    done_h = set()
    body = []
    for n in sorted(set(names)):
        m = model_for(n)
        if m is None:
            missing.append(n)
            continue
        for h in m.deps:
            if h not in done_h:
                done_h.add(h)
                for hh in HELPERS[h][1]:
                    if hh not in done_h:
                        done_h.add(hh)
                        out.append(HELPERS[hh][0])
                out.append(HELPERS[h][0])
        body.append(m.text())
    return ''.join(out) + '\n'.join(body), missing


if __name__ == '__main__':
    import sys
    names = open(sys.argv[1]).read().split()
    names = [n for n in names if n.startswith('_') and not n.startswith('__builtin_inf') and not n.startswith('__builtin_nan')]
    t, missing = text_for(names)
    print('/* %d models, %d missing */' % (len(names) - len(missing), len(missing)), file=sys.stderr)
    print(' '.join(missing), file=sys.stderr)
    print('#include "avm_base.h"\n#include <math.h>\n' + t)
