/* avm_models.h -- trusted contracts on dependencies outside AVEL (libc / libm / compiler builtins).
 * Instruction models (x86 intrinsics) are in avm_x86.h, included when the configuration needs them. */
#ifndef AVM_MODELS_H
#define AVM_MODELS_H
#include "avm_base.h"
#include <math.h>
#include <string.h>
#include <stdlib.h>

/* ---- libm: AVEL's scalar float functions forward to these; the model IS the reference semantics ---- */
static inline float  X_ceil_f32(float x)   { return ceilf(x); }
static inline double X_ceil_f64(double x)  { return ceil(x); }
static inline float  X_floor_f32(float x)  { return floorf(x); }
static inline double X_floor_f64(double x) { return floor(x); }
static inline float  X_trunc_f32(float x)  { return truncf(x); }
static inline double X_trunc_f64(double x) { return trunc(x); }
static inline float  X_round_f32(float x)  { return roundf(x); }
static inline double X_round_f64(double x) { return round(x); }
static inline float  X_nearbyint_f32(float x)  { return nearbyintf(x); }
static inline double X_nearbyint_f64(double x) { return nearbyint(x); }
static inline float  X_rint_f32(float x)   { return rintf(x); }
static inline double X_rint_f64(double x)  { return rint(x); }
static inline float  X_sqrt_f32(float x)   { return sqrtf(x); }
static inline double X_sqrt_f64(double x)  { return sqrt(x); }
static inline float  X_fmod_f32_f32(float x, float y)    { return fmodf(x, y); }
static inline double X_fmod_f64_f64(double x, double y)  { return fmod(x, y); }
static inline double X_copysign_f64_f64(double x, double y) { return copysign(x, y); }
static inline float  X_copysign_f32_f32(float x, float y)   { return copysignf(x, y); }
static inline int X_isgreater_f32_f32(float a, float b)       { return isgreater(a, b); }
static inline int X_isgreater_f64_f64(double a, double b)     { return isgreater(a, b); }
static inline int X_isgreaterequal_f32_f32(float a, float b)  { return isgreaterequal(a, b); }
static inline int X_isgreaterequal_f64_f64(double a, double b){ return isgreaterequal(a, b); }
static inline int X_isless_f32_f32(float a, float b)          { return isless(a, b); }
static inline int X_isless_f64_f64(double a, double b)        { return isless(a, b); }
static inline int X_islessequal_f32_f32(float a, float b)     { return islessequal(a, b); }
static inline int X_islessequal_f64_f64(double a, double b)   { return islessequal(a, b); }
static inline int X_islessgreater_f32_f32(float a, float b)   { return islessgreater(a, b); }
static inline int X_islessgreater_f64_f64(double a, double b) { return islessgreater(a, b); }
static inline int X_isunordered_f32_f32(float a, float b)     { return isunordered(a, b); }
static inline int X_isunordered_f64_f64(double a, double b)   { return isunordered(a, b); }
static inline int X_isnormal_f32(float a)   { return isnormal(a); }
static inline int X_isnormal_f64(double a)  { return isnormal(a); }
static inline int X_signbit_f32(float a)    { return signbit(a) != 0; }
static inline int X_signbit_f64(double a)   { return signbit(a) != 0; }
static inline int X_fpclassify_f64(double a){ return fpclassify(a); }
static inline int X_fpclassify_f32(float a) { return fpclassify(a); }
float  X_frexp_f32_pi32(float x, int32_t* e);
double X_frexp_f64_pi32(double x, int32_t* e);
float  X_ldexp_f32_i32(float x, int32_t e);
double X_ldexp_f64_i32(double x, int32_t e);
int32_t X_ilogb_f32(float x);
int32_t X_ilogb_f64(double x);
float  X_logb_f32(float x);
double X_logb_f64(double x);
/* std::min / std::max on references: the smaller / larger operand, the first one on ties */
static inline uint32_t* X_min_pu32_pu32(uint32_t* a, uint32_t* b) { return *b < *a ? b : a; }
static inline uint32_t* X_max_pu32_pu32(uint32_t* a, uint32_t* b) { return *a < *b ? b : a; }
static inline uint64_t* X_min_pu64_pu64(uint64_t* a, uint64_t* b) { return *b < *a ? b : a; }
static inline uint64_t* X_max_pu64_pu64(uint64_t* a, uint64_t* b) { return *a < *b ? b : a; }
#define X_memcpy_pvoid_pvoid_sz(d, s, n) memcpy((d), (s), (n))
static inline float __builtin_inff(void) { return avm_u2f(0x7f800000u); }
static inline double __builtin_inf(void) { return avm_u2d(0x7ff0000000000000ull); }
static inline float __builtin_nanf(const char* s) { (void)s; return avm_u2f(0x7fc00000u); }
static inline double __builtin_nan(const char* s) { (void)s; return avm_u2d(0x7ff8000000000000ull); }
#endif
