/* avm_models.h -- trusted contracts on dependencies outside AVEL (libc / libm / compiler builtins).
 * Instruction models (x86 intrinsics) are in avm_x86.h, included when the configuration needs them. */
#ifndef AVM_MODELS_H
#define AVM_MODELS_H
#include "avm_base.h"
#include <math.h>
#include <string.h>
#include <stdlib.h>

/* ---- libm: AVEL's scalar float functions forward to these; the model IS the reference semantics ---- */
static inline float  X_ceil_f32(float x)   { return ceilf(x); }
static inline double X_ceil_f64(double x)  { return ceil(x); }
static inline float  X_floor_f32(float x)  { return floorf(x); }
static inline double X_floor_f64(double x) { return floor(x); }
static inline float  X_trunc_f32(float x)  { return truncf(x); }
static inline double X_trunc_f64(double x) { return trunc(x); }
static inline float  X_round_f32(float x)  { return roundf(x); }
static inline double X_round_f64(double x) { return round(x); }
static inline float  X_nearbyint_f32(float x)  { return nearbyintf(x); }
static inline double X_nearbyint_f64(double x) { return nearbyint(x); }
static inline float  X_rint_f32(float x)   { return rintf(x); }
static inline double X_rint_f64(double x)  { return rint(x); }
static inline float  X_sqrt_f32(float x)   { return avm_sqrtf(x); }
static inline double X_sqrt_f64(double x)  { return avm_sqrt(x); }
static inline float  X_fmod_f32_f32(float x, float y)    { return fmodf(x, y); }
static inline double X_fmod_f64_f64(double x, double y)  { return fmod(x, y); }
static inline double X_copysign_f64_f64(double x, double y) { return copysign(x, y); }
static inline float  X_copysign_f32_f32(float x, float y)   { return copysignf(x, y); }
/* quiet comparisons and classification: stated directly (every comparison is quiet in CBMC's theory) */
static inline int X_isgreater_f32_f32(float a, float b)       { return a > b; }
static inline int X_isgreater_f64_f64(double a, double b)     { return a > b; }
static inline int X_isgreaterequal_f32_f32(float a, float b)  { return a >= b; }
static inline int X_isgreaterequal_f64_f64(double a, double b){ return a >= b; }
static inline int X_isless_f32_f32(float a, float b)          { return a < b; }
static inline int X_isless_f64_f64(double a, double b)        { return a < b; }
static inline int X_islessequal_f32_f32(float a, float b)     { return a <= b; }
static inline int X_islessequal_f64_f64(double a, double b)   { return a <= b; }
static inline int X_islessgreater_f32_f32(float a, float b)   { return a < b || a > b; }
static inline int X_islessgreater_f64_f64(double a, double b) { return a < b || a > b; }
static inline int X_isunordered_f32_f32(float a, float b)     { return a != a || b != b; }
static inline int X_isunordered_f64_f64(double a, double b)   { return a != a || b != b; }
static inline int X_isnormal_f32(float a)   { uint32_t e = (avm_f2u(a) >> 23) & 0xff; return e != 0 && e != 0xff; }
static inline int X_isnormal_f64(double a)  { uint64_t e = (avm_d2u(a) >> 52) & 0x7ff; return e != 0 && e != 0x7ff; }
static inline int X_signbit_f32(float a)    { return (int)(avm_f2u(a) >> 31); }
static inline int X_signbit_f64(double a)   { return (int)(avm_d2u(a) >> 63); }
static inline int X_isnan_f32(float a)      { return a != a; }
static inline int X_isnan_f64(double a)     { return a != a; }
static inline int X_isinf_f32(float a)      { return (avm_f2u(a) & 0x7fffffffu) == 0x7f800000u; }
static inline int X_isinf_f64(double a)     { return (avm_d2u(a) & 0x7fffffffffffffffull) == 0x7ff0000000000000ull; }
static inline int X_isfinite_f32(float a)   { return ((avm_f2u(a) >> 23) & 0xff) != 0xff; }
static inline int X_isfinite_f64(double a)  { return ((avm_d2u(a) >> 52) & 0x7ff) != 0x7ff; }
/* FP_NAN 0, FP_INFINITE 1, FP_ZERO 2, FP_SUBNORMAL 3, FP_NORMAL 4 (glibc) */
static inline int X_fpclassify_f32(float a) { uint32_t u = avm_f2u(a), e = (u >> 23) & 0xff, f = u & 0x7fffffu; return e == 0xff ? (f ? 0 : 1) : (e == 0 ? (f ? 3 : 2) : 4); }
static inline int X_fpclassify_f64(double a){ uint64_t u = avm_d2u(a), e = (u >> 52) & 0x7ff, f = u & 0xfffffffffffffull; return e == 0x7ff ? (f ? 0 : 1) : (e == 0 ? (f ? 3 : 2) : 4); }
/* frexp / ldexp / ilogb / logb as the C standard defines them (binary32 and, where exact arithmetic is at hand, binary64) */
static inline int32_t avm_ilogb_fin32(uint32_t u) { int32_t e = (int32_t)((u >> 23) & 0xff); uint32_t f = u & 0x7fffffu; if (e) return e - 127; int32_t r = -127; for (int i = 0; i < 23; i++) { if (f & 0x400000u) break; f <<= 1; r--; } return r; }
static inline int32_t avm_ilogb_fin64(uint64_t u) { int32_t e = (int32_t)((u >> 52) & 0x7ff); uint64_t f = u & 0xfffffffffffffull; if (e) return e - 1023; int32_t r = -1023; for (int i = 0; i < 52; i++) { if (f & 0x8000000000000ull) break; f <<= 1; r--; } return r; }
static inline int32_t X_ilogb_f32(float x) { uint32_t u = avm_f2u(x); if ((u & 0x7fffffffu) > 0x7f800000u) return (-2147483647 - 1); if ((u & 0x7fffffffu) == 0x7f800000u) return 2147483647; if ((u & 0x7fffffffu) == 0) return (-2147483647 - 1); return avm_ilogb_fin32(u); }
static inline int32_t X_ilogb_f64(double x) { uint64_t u = avm_d2u(x), m = u & 0x7fffffffffffffffull; if (m > 0x7ff0000000000000ull) return (-2147483647 - 1); if (m == 0x7ff0000000000000ull) return 2147483647; if (m == 0) return (-2147483647 - 1); return avm_ilogb_fin64(u); }
static inline float X_logb_f32(float x) { uint32_t u = avm_f2u(x), m = u & 0x7fffffffu; if (m > 0x7f800000u) return x; if (m == 0x7f800000u) return avm_u2f(0x7f800000u); if (m == 0) return avm_u2f(0xff800000u); return (float)avm_ilogb_fin32(u); }
static inline double X_logb_f64(double x) { uint64_t u = avm_d2u(x), m = u & 0x7fffffffffffffffull; if (m > 0x7ff0000000000000ull) return x; if (m == 0x7ff0000000000000ull) return avm_u2d(0x7ff0000000000000ull); if (m == 0) return avm_u2d(0xfff0000000000000ull); return (double)avm_ilogb_fin64(u); }
static inline float X_frexp_f32_pi32(float x, int32_t* e) {
  uint32_t u = avm_f2u(x), m = u & 0x7fffffffu;
  if (m >= 0x7f800000u) { *e = nondet_i32(); return x; }      /* inf / NaN: exponent unspecified */
  if (m == 0) { *e = 0; return x; }
  uint32_t f = u & 0x7fffffu;
  if (((u >> 23) & 0xff) == 0) { for (int i = 0; i < 23; i++) { f <<= 1; if (f & 0x800000u) break; } f &= 0x7fffffu; }
  *e = avm_ilogb_fin32(u) + 1;
  return avm_u2f((u & 0x80000000u) | (126u << 23) | f);
}
static inline double X_frexp_f64_pi32(double x, int32_t* e) {
  uint64_t u = avm_d2u(x), m = u & 0x7fffffffffffffffull;
  if (m >= 0x7ff0000000000000ull) { *e = nondet_i32(); return x; }
  if (m == 0) { *e = 0; return x; }
  uint64_t f = u & 0xfffffffffffffull;
  if (((u >> 52) & 0x7ff) == 0) { for (int i = 0; i < 52; i++) { f <<= 1; if (f & 0x10000000000000ull) break; } f &= 0xfffffffffffffull; }
  *e = avm_ilogb_fin64(u) + 1;
  return avm_u2d((u & 0x8000000000000000ull) | (1022ull << 52) | f);
}
static inline float X_ldexp_f32_i32(float x, int32_t e) {
  uint32_t u = avm_f2u(x), m = u & 0x7fffffffu;
  if (m >= 0x7f800000u || m == 0) return x;
  int32_t k = e > 400 ? 400 : (e < -400 ? -400 : e);
  return (float)((double)x * avm_u2d((uint64_t)(1023 + k) << 52));
}
/* binary64: x * 2^k exactly in long double (three exact multiplications by powers of two; |k| clamped to 2200, beyond which
 * the result is already the overflow / underflow limit), then ONE rounding to binary64 in the current rounding mode */
static inline double avm_pow2_f64(int k) { return avm_u2d((uint64_t)(1023 + k) << 52); }      /* |k| <= 1000 */
static inline double avm_ldexp64_exact(double x, int64_t e) {
  int k = e > 2200 ? 2200 : (e < -2200 ? -2200 : (int)e);
  int k1 = k > 1000 ? 1000 : (k < -1000 ? -1000 : k); int r1 = k - k1;
  int k2 = r1 > 1000 ? 1000 : (r1 < -1000 ? -1000 : r1); int k3 = r1 - k2;
  return (double)((long double)x * (long double)avm_pow2_f64(k1) * (long double)avm_pow2_f64(k2) * (long double)avm_pow2_f64(k3));
}
static inline double X_ldexp_f64_i32(double x, int32_t e) {
  uint64_t u = avm_d2u(x), m = u & 0x7fffffffffffffffull;
  if (m >= 0x7ff0000000000000ull || m == 0) return x;
  return avm_ldexp64_exact(x, (int64_t)e);
}
/* ---- allocation.  malloc succeeds (the properties do not speak about exhaustion) and returns storage aligned for
 * max_align_t (16); the residue of the block's address modulo 4096 is a ghost value so that stricter alignments can be
 * reasoned about: address(p) mod 4096 == (avm_base_mod + offset(p)) mod 4096 for pointers into the last malloc'ed block. */
size_t avm_base_mod;
static inline void* X_malloc_sz(size_t n) {
  void* p = malloc(n);
  __CPROVER_assume(p != 0);
  size_t r = nondet_sz();
  __CPROVER_assume(r < 4096 && r % 16 == 0);
  avm_base_mod = r;
  return p;
}
static inline void X_free_pvoid(void* p) { free(p); }
/* std::align(alignment, size, ptr, space) */
static inline void* X_align_sz_sz_ppvoid_psz(size_t alignment, size_t size, void** ptr, size_t* space) {
  size_t addr_mod = (avm_base_mod + (size_t)__CPROVER_POINTER_OFFSET(*ptr)) % 4096;
  size_t pad = (alignment - addr_mod % alignment) % alignment;
  if (alignment > 4096) { __CPROVER_assert(0, "model: std::align beyond 4096 is not modelled"); }
  if (size > *space || pad > *space - size) return 0;
  *ptr = (char*)*ptr + pad;
  *space -= pad;
  return *ptr;
}
/* _mm_malloc / aligned_alloc: storage aligned as requested */
static inline void* _mm_malloc(size_t n, size_t align) { void* p = malloc(n); __CPROVER_assume(p != 0); avm_base_mod = 0; (void)align; return p; }
static inline void _mm_free(void* p) { free(p); }
static inline void* X_aligned_alloc_sz_sz(size_t align, size_t n) { void* p = malloc(n); __CPROVER_assume(p != 0); avm_base_mod = 0; (void)align; return p; }
/* prefetch: a hint -- accesses nothing, cannot fault (SDM PREFETCHh: "does not cause exceptions"); the address is not dereferenced */
#define __builtin_prefetch(p, rw, loc) ((void)(p), (void)(rw), (void)(loc))

/* std::min / std::max on references: the smaller / larger operand, the first one on ties */
static inline uint32_t* X_min_pu32_pu32(uint32_t* a, uint32_t* b) { return *b < *a ? b : a; }
static inline uint32_t* X_max_pu32_pu32(uint32_t* a, uint32_t* b) { return *a < *b ? b : a; }
static inline uint64_t* X_min_pu64_pu64(uint64_t* a, uint64_t* b) { return *b < *a ? b : a; }
static inline uint64_t* X_max_pu64_pu64(uint64_t* a, uint64_t* b) { return *a < *b ? b : a; }
#define X_memcpy_pvoid_pvoid_sz(d, s, n) memcpy((d), (s), (n))
static inline float __builtin_inff(void) { return avm_u2f(0x7f800000u); }
static inline double __builtin_inf(void) { return avm_u2d(0x7ff0000000000000ull); }
static inline float __builtin_nanf(const char* s) { (void)s; return avm_u2f(0x7fc00000u); }
static inline double __builtin_nan(const char* s) { (void)s; return avm_u2d(0x7ff8000000000000ull); }
#endif
