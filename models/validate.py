#!/usr/bin/env python3
"""validate.py -- differential validation of the instruction models in gen_x86.py against the real
x86 instructions (DESIGN.md 3.3: the models are part of the trusted base; this is the evidence for them).

For every name (argv[1] = file with one name per line, default /root/scratch/externs2.txt) whose model is
neither `mem` nor `novalidate`, native C++ test code is generated that calls
  (a) the model, compiled natively under the name avmm_<NAME>, and
  (b) the real intrinsic / builtin from <immintrin.h>/<x86intrin.h> (clang++ 14: the __builtin_ia32_* names in
      the list are clang spellings), with immediates as compile-time constants (one call site per value),
on an edge lattice plus N random inputs per call site (and per rounding mode for floating-point operations),
and compares the results bit for bit.

Output: one line per name
    OK name calls=<n> [nandiff=<k>] [asserts=<k>]
    MISMATCH name imm=<..> rm=<mode> inputs=<hex> model=<hex> real=<hex> count=<bad>/<calls>
    SKIP name reason
(NANDIFF lines are informational: both results NaN in a float lane of an arithmetic result, payload/sign differ)
and a final line `validated=<n> mismatches=<m> skipped=<s>`.  Exit status 0 iff there is no MISMATCH.

Vectors are printed as their 64-bit words q[0]:q[1]:... (q[0] = least significant, as in struct m128).

The real-intrinsic argument types are not tabulated: every non-immediate argument is passed as an object with a
templated conversion operator (`Any`), which memcpy's the raw input bytes into whatever parameter type the real
function / macro / builtin declares (__m128, __v16si, __mmask8, long long ...).
"""
import argparse
import concurrent.futures
import json
import os
import re
import shutil
import subprocess
import sys
import tempfile
import time

HERE = os.path.dirname(os.path.abspath(__file__))
sys.path.insert(0, HERE)
sys.dont_write_bytecode = True   # nothing is written under /verif
gen_x86 = None   # loaded in main() (--gen-x86 selects another copy, e.g. to try out a model fix)


def load_gen(path):
    global gen_x86
    import importlib.util
    spec = importlib.util.spec_from_file_location('gen_x86', path)
    gen_x86 = importlib.util.module_from_spec(spec)
    spec.loader.exec_module(gen_x86)

SCRATCH_ROOT = '/root/.avel-verif-scratch'
CXX = os.environ.get('AVV_CXX', 'clang++')
CXXFLAGS = ['-std=c++17', '-O1', '-march=native', '-mavx512f', '-mavx512cd', '-mavx512dq', '-mavx512bw', '-mavx512vl',
            '-mavx512vbmi', '-mavx512vbmi2', '-mavx512bitalg', '-mavx512vpopcntdq', '-mgfni', '-mbmi', '-mbmi2',
            '-mlzcnt', '-mpopcnt', '-ffp-contract=off', '-fno-strict-aliasing', '-w',
            '-fno-color-diagnostics', '-fno-caret-diagnostics', '-ferror-limit=0', '-I', HERE]

VEC = {'m128': 128, 'm256': 256, 'm512': 512}
INT_T = {'char': 8, 'signed char': 8, 'unsigned char': 8, 'short': 16, 'unsigned short': 16, 'int': 32, 'unsigned int': 32,
         'unsigned': 32, 'long': 64, 'unsigned long': 64, 'long long': 64, 'unsigned long long': 64,
         'int8_t': 8, 'int16_t': 16, 'int32_t': 32, 'int64_t': 64}
K_T = {'uint8_t': 8, 'uint16_t': 16, 'uint32_t': 32, 'uint64_t': 64}
F_T = {'float': 32, 'double': 64}

# fixed pseudo-random subset of 0..255 for shuffle / ternlog / blend / permute style immediates
SHUF24 = [0x00, 0x01, 0x1b, 0x4e, 0xb1, 0xff, 0x02, 0x08, 0x10, 0x20, 0x27, 0x39, 0x55, 0x6c, 0x72, 0x80, 0x8d, 0x93, 0xaa, 0xc6, 0xd8, 0xe4, 0xf0, 0xfe]
FPCLASS = [0x00, 0x01, 0x02, 0x04, 0x08, 0x10, 0x20, 0x40, 0x80, 0xff, 0x03, 0x06, 0x18, 0x26, 0x41, 0x55, 0x81, 0x99, 0xaa, 0xbf, 0xc0, 0xe7, 0x7f, 0xfe]
ROUND = [0, 1, 2, 3, 4, 8, 9, 10, 11, 12]


def imm_values(name, m, i):
    an = m.args[i][1]
    if an == 'rounding':
        return [4, 8, 9, 10, 11]
    if re.search(r'_cmpp[sd]', name):
        return list(range(32))
    if re.search(r'_u?cmp[bwdq]\d+_mask', name):
        return list(range(8))
    if re.search(r'_(slli|srli|srai)_epi', name):
        return list(range(71)) + [128, 255]
    if re.search(r'_pro[lr][dq]\d+', name) or re.search(r'_vpsh[lr]d[wdq]\d+', name):
        return list(range(71)) + [255]
    if re.search(r'_ps[lr]ldqi\d+', name):
        return list(range(21)) + [255]
    if re.search(r'_roundp[sd]|_rndscalep[sd]', name):
        return ROUND
    if 'fpclass' in name:
        return FPCLASS
    if 'getmant' in name or '_rangep' in name:
        return list(range(16))
    if 'fixupimm' in name:
        return [0]
    mm = re.search(r'_vec_(ext|set)_v(\d+)', name)
    if mm:
        return list(range(int(mm.group(2))))
    if re.search(r'extract128i256|vextractf128|extract[if]64x4|insert[if]64x4|insert128i256|vinsertf128', name):
        return [0, 1]
    if re.search(r'extract[if]32x4|insert[if]32x4', name):
        return [0, 1, 2, 3]
    if re.search(r'_blendpd256$', name) or re.search(r'_blendps$', name) or re.search(r'_shufpd256$', name):
        return list(range(16))
    if re.search(r'_blendpd$', name) or re.search(r'_shufpd$', name):
        return list(range(4))
    return SHUF24


def fhint_of(name):
    """32 / 64 if the name says the operation works on float / double lanes, else 0"""
    a = re.search(r'(ps|ss|sf|f32)(?=\d|_|$)', name)
    b = re.search(r'(pd|sd|df|f64)(?=\d|_|$)', name)
    if a and b:
        return 32 if a.start() < b.start() else 64
    return 32 if a else 64 if b else 0


EXACT_RE = re.compile(r'cmp|_and_|_or_|_xor_|andnot|cast|_set|blend|_mov|unpack|shuf|permil|extract|insert|_abs_|vec_ext|vec_set|select|perm2f128|fpclass')


def retf_of(name, m):
    """lane size for the NaN-tolerant comparison (arithmetic float results only), else 0"""
    if m.ret not in VEC or EXACT_RE.search(name):
        return 0
    if name.startswith('__builtin_ia32_'):
        return fhint_of(name)
    if name.endswith('_ps'):
        return 32
    if name.endswith('_pd'):
        return 64
    return 0


NOZERO_RE = re.compile(r'^(__bsrd|__bsfd|__bsrq|__bsfq|__builtin_clz(l|ll)?|__builtin_ctz(l|ll)?)$')


class Spec:
    """everything the generator needs for one name"""

    def __init__(self, name, m):
        self.name = name
        self.m = m
        self.custom = name in ('model_divq', 'model_add_rcr64')
        self.fhint = fhint_of(name)
        self.retf = retf_of(name, m)
        self.flags = (1 if self.fhint else 0) | (2 if NOZERO_RE.match(name) else 0)
        self.args = []     # (kind, bits) of the non-immediate arguments
        self.slot = {}     # argument index -> input slot
        if self.custom:
            n = 3 if name == 'model_divq' else 2
            self.args = [('I', 64)] * n
            self.retbytes = 16 if name == 'model_divq' else 8
            self.sites = [()]
            return
        for i, (t, an) in enumerate(m.args):
            if i in m.imm:
                continue
            self.slot[i] = len(self.args)
            if t in VEC:
                self.args.append(('C' if an == 'count' else 'V', VEC[t]))
            elif t in K_T:
                self.args.append(('K', K_T[t]))
            elif t in INT_T:
                self.args.append(('I', INT_T[t]))
            elif t in F_T:
                self.args.append(('F', F_T[t]))
            else:
                raise ValueError('unsupported argument type %s' % t)
        r = m.ret
        self.retbytes = VEC[r] // 8 if r in VEC else (K_T.get(r) or INT_T.get(r) or F_T.get(r) or 0) // 8
        if not self.retbytes:
            raise ValueError('unsupported return type %s' % r)
        # call sites: cross product of the immediate value sets
        sites = [()]
        for i in sorted(m.imm):
            sites = [s + (v,) for s in sites for v in imm_values(name, m, i)]
        self.sites = sites

    def cost(self):
        return len(self.sites) * (4 if self.flags & 1 else 1)

    def imm_str(self, site):
        if not site:
            return '-'
        return ','.join('%s=%d' % (self.m.args[i][1], v) for i, v in zip(sorted(self.m.imm), site))

    def call_args(self, site):
        out = []
        imms = dict(zip(sorted(self.m.imm), site))
        for i in range(len(self.m.args)):
            out.append(str(imms[i]) if i in imms else 'Any{&in[%d]}' % self.slot[i])
        return ', '.join(out)


# ------------------------------------------------------------------------------------------------------------
DRIVER = r'''
#define AVM_NATIVE 1
#include <immintrin.h>
#include <x86intrin.h>
#include <stdint.h>
#include <stddef.h>
#include <stdbool.h>
#include <string.h>
#include <stdio.h>
#include <stdlib.h>
#include <math.h>
#include <fenv.h>
#include <string>
static long avv_asserts = 0;
static const char* avv_first_assert = 0;
static inline void avv_assert_fail(const char* msg) { if (!avv_asserts++) avv_first_assert = msg; }
#define __CPROVER_assert(c, msg) do { if (!(c)) avv_assert_fail(msg); } while (0)
#ifndef _Bool
#define _Bool bool
#endif
#include "avm_base.h"
_Bool nondet_bool(void) { return 0; } uint8_t nondet_u8(void) { return 0; } uint16_t nondet_u16(void) { return 0; }
uint32_t nondet_u32(void) { return 0; } uint64_t nondet_u64(void) { return 0; } int8_t nondet_i8(void) { return 0; }
int16_t nondet_i16(void) { return 0; } int32_t nondet_i32(void) { return 0; } int64_t nondet_i64(void) { return 0; }
float nondet_f32(void) { return 0; } double nondet_f64(void) { return 0; } size_t nondet_sz(void) { return 0; }

typedef struct Val { unsigned char b[64]; } Val;
struct Any { const void* p; template<class T> operator T() const { T t; memcpy(&t, p, sizeof(T)); return t; } };
template<class R> static inline void put(Val* o, const R& r) { memset(o, 0, 64); memcpy(o, &r, sizeof r); }
typedef void (*fn_t)(const Val* in, Val* out);
struct Site { const char* imm; fn_t model; fn_t real; };
struct Arg { char kind; int bits; };
struct Test { const char* name; int nargs; const Arg* args; int retbytes; int retf; int fhint; int flags; int nsites; const Site* sites; };
enum { FL_RM = 1, FL_NOZERO = 2 };

static uint64_t rng_s;
static inline uint64_t rnd() { uint64_t z = (rng_s += 0x9e3779b97f4a7c15ull); z = (z ^ (z >> 30)) * 0xbf58476d1ce4e5b9ull; z = (z ^ (z >> 27)) * 0x94d049bb133111ebull; return z ^ (z >> 31); }

enum { T_I8, T_I16, T_I32, T_I64, T_F32, T_F64 };
static const int TBITS[6] = {8, 16, 32, 64, 32, 64};
static const uint64_t E8[] = {0, 1, 2, 0x7f, 0x80, 0x81, 0xff, 0xfe, 0x55, 0xaa, 0x0f, 0xf0, 0x40, 0x10, 7, 8, 9};
static const uint64_t E16[] = {0, 1, 2, 0x7fff, 0x8000, 0x8001, 0xffff, 0xfffe, 0x00ff, 0xff00, 0x0080, 0x007f, 0x0100, 0x5555, 0xaaaa, 0x4000, 15, 16, 17, 0xff80, 0x7f80};
static const uint64_t E32[] = {0, 1, 2, 0x7fffffff, 0x80000000, 0x80000001, 0xffffffff, 0xfffffffe, 0xffff, 0x10000, 0x8000, 0x7fff, 0xffff0000,
  0x55555555, 0xaaaaaaaa, 0x40000000, 31, 32, 33, 0xff, 0x100, 0x80, 0xffff8000, 0xffffff80, 0x00010001, 0x7fff7fff};
static const uint64_t E64[] = {0, 1, 2, 0x7fffffffffffffffull, 0x8000000000000000ull, 0x8000000000000001ull, 0xffffffffffffffffull, 0xfffffffffffffffeull,
  0xffffffffull, 0x100000000ull, 0x80000000ull, 0x7fffffffull, 0xffffffff00000000ull, 0x5555555555555555ull, 0xaaaaaaaaaaaaaaaaull, 0x4000000000000000ull,
  63, 64, 65, 0xffffffff80000000ull, 0xffff, 0x8000, 31, 32};
static const uint32_t F32BITS[] = {0x00000000, 0x80000000, 0x3f800000, 0xbf800000, 0x3f000000, 0xbf000000, 0x7f800000, 0xff800000, 0x7fc00000, 0xffc00000,
  0x7f800001, 0xff800001, 0x7fa00000, 0x7fc12345, 0x7fffffff, 0xffbfffff, 0x00800000, 0x80800000, 0x7f7fffff, 0xff7fffff, 0x00000001, 0x80000001, 0x007fffff, 0x807fffff,
  0x00400000, 0x3effffff, 0x3f000001, 0x3f7fffff, 0x3f800001, 0x4effffff, 0x4f000000, 0xcf000000, 0xcf000001, 0x4f7fffff, 0x4f800000, 0x5f000000, 0xdf000000,
  0xdf000001, 0x5effffff, 0x5f800000, 0x4b000000, 0x4b000001, 0x4b800000, 0x4b7fffff, 0x4a800001, 0x00800001, 0x01000000};
static const float F32LIT[] = {1.5f, -1.5f, 2.5f, -2.5f, 3.5f, 0.25f, 1e10f, -1e10f, 1e-10f, 3.14159274f, 127.f, 128.f, -126.f, -127.f, -149.f, -150.f, 2.f, -2.f, 3.f,
  0.75f, -0.75f, 100.f, 1e38f, 1e-38f, 255.f, 256.f, 65535.f, 65536.f, 32767.f, 32768.f, -32768.f, -32769.f, 4.f, -3.f};
static const uint64_t F64BITS[] = {0, 0x8000000000000000ull, 0x3ff0000000000000ull, 0xbff0000000000000ull, 0x3fe0000000000000ull, 0xbfe0000000000000ull,
  0x7ff0000000000000ull, 0xfff0000000000000ull, 0x7ff8000000000000ull, 0xfff8000000000000ull, 0x7ff0000000000001ull, 0xfff0000000000001ull, 0x7ff4000000000000ull,
  0x7ff8000012345678ull, 0x7fffffffffffffffull, 0xfff7ffffffffffffull, 0x0010000000000000ull, 0x8010000000000000ull, 0x7fefffffffffffffull, 0xffefffffffffffffull, 1, 0x8000000000000001ull,
  0x000fffffffffffffull, 0x800fffffffffffffull, 0x0008000000000000ull, 0x3fdfffffffffffffull, 0x3fe0000000000001ull, 0x3fefffffffffffffull, 0x3ff0000000000001ull,
  0x4330000000000000ull, 0x4330000000000001ull, 0x4340000000000000ull, 0x433fffffffffffffull, 0x43e0000000000000ull, 0x43dfffffffffffffull, 0xc3e0000000000000ull,
  0xc3e0000000000001ull, 0x43f0000000000000ull, 0x43efffffffffffffull, 0x0010000000000001ull, 0x0020000000000000ull};
static const double F64LIT[] = {1.5, -1.5, 2.5, -2.5, 3.5, 0.25, 1e10, -1e10, 1e-10, 3.141592653589793, 2147483647.0, 2147483647.5, 2147483648.0, 2147483648.5,
  -2147483648.0, -2147483648.5, -2147483649.0, 2147483646.5, 4294967295.0, 4294967295.5, 4294967296.0, -0.99999, 1023., 1024., -1022., -1023., -1074., -1075.,
  1e300, 1e-300, 1e308, 1e-308, 127., 128., -126., -149., -150., 2., 3., 100., 3.4028234663852886e38, 3.4028235677973366e38, 1.1754943508222875e-38,
  1.4012984643248171e-45, 7.0e-46, 16777217.0, 65535., 65536., -2., -3., 4.};
#define NEL(a) ((unsigned)(sizeof(a) / sizeof((a)[0])))
static unsigned edge_n(int t) {
  switch (t) { case T_I8: return NEL(E8); case T_I16: return NEL(E16); case T_I32: return NEL(E32); case T_I64: return NEL(E64);
               case T_F32: return NEL(F32BITS) + NEL(F32LIT); default: return NEL(F64BITS) + NEL(F64LIT); }
}
static uint64_t edge_of(int t, unsigned i) {
  i %= edge_n(t);
  switch (t) {
    case T_I8: return E8[i]; case T_I16: return E16[i]; case T_I32: return E32[i]; case T_I64: return E64[i];
    case T_F32: return i < NEL(F32BITS) ? F32BITS[i] : avm_f2u(F32LIT[i - NEL(F32BITS)]);
    default: return i < NEL(F64BITS) ? F64BITS[i] : avm_d2u(F64LIT[i - NEL(F64BITS)]);
  }
}
static int pick_ft(int fhint) { unsigned r = rnd() % 10; if (fhint == 32) return r < 7 ? T_F32 : T_F64; if (fhint == 64) return r < 7 ? T_F64 : T_F32; return (r & 1) ? T_F32 : T_F64; }
static int pick_it() { return (int)(rnd() % 4); }
static int pick_t(int fhint) { unsigned r = rnd() % 100; if (fhint ? r < 70 : r < 35) return pick_ft(fhint); return pick_it(); }
static uint64_t mkf(int t, uint64_t sign, uint64_t exp, uint64_t mant) {
  if (t == T_F32) return ((sign & 1) << 31) | ((exp & 0xff) << 23) | (mant & 0x7fffffu);
  return ((sign & 1) << 63) | ((exp & 0x7ff) << 52) | (mant & 0xfffffffffffffull);
}
static uint64_t from_double(int t, double d) { if (t == T_F32) return avm_f2u((float)d); return avm_d2u(d); }
static void set_lane(Val* v, int lanebits, int lane, uint64_t x) { memcpy(v->b + lane * (lanebits / 8), &x, lanebits / 8); }
static uint64_t get_lane(const Val* v, int lanebits, int lane) { uint64_t x = 0; memcpy(&x, v->b + lane * (lanebits / 8), lanebits / 8); return x; }
static void bcast(Val* v, int bits, int lanebits, uint64_t x) { for (int i = 0; i < bits / lanebits; i++) set_lane(v, lanebits, i, x); }
static void rand_bits(Val* v, int bits) { for (int i = 0; i < bits / 64; i++) set_lane(v, 64, i, rnd()); }

static uint64_t close_float(int t) { int bias = t == T_F32 ? 127 : 1023; uint64_t m = rnd(); unsigned k = rnd() % 8; if (k == 0) m = 0; else if (k == 1) m = ~0ull; else if (k == 2) m &= 7; else if (k == 3) m <<= (t == T_F32 ? 20 : 49);
  return mkf(t, rnd(), (uint64_t)(bias + (int)(rnd() % 21) - 10), m); }
static uint64_t boundary_float(int t) {
  static const double B[] = {2147483648.0, 4294967296.0, 9223372036854775808.0, 18446744073709551616.0, 16777216.0, 9007199254740992.0, 32768.0, 65536.0, 128.0, 256.0, 8388608.0, 4503599627370496.0, 1.0, 0.5};
  double b = B[rnd() % 14]; if (rnd() & 1) b = -b;
  int k = (int)(rnd() % 9) - 4;
  if (rnd() & 1) return from_double(t, b + k * ((rnd() & 1) ? 0.5 : 1.0));
  if (t == T_F32) { float f = (float)b; for (int i = 0; i < (k < 0 ? -k : k); i++) f = nextafterf(f, k < 0 ? -INFINITY : INFINITY); return avm_f2u(f); }
  for (int i = 0; i < (k < 0 ? -k : k); i++) b = nextafter(b, k < 0 ? -INFINITY : INFINITY);
  return avm_d2u(b);
}
static uint64_t extreme_float(int t) { unsigned maxe = t == T_F32 ? 0xfe : 0x7fe; static const int D[] = {0, 0, 1, 2, -1, -2, -3, 3};
  int d = D[rnd() % 8]; uint64_t e = d >= 0 && (rnd() & 1) ? (uint64_t)d : (uint64_t)(maxe - (unsigned)(d < 0 ? -d : d)); uint64_t m = rnd(); unsigned k = rnd() % 4; if (k == 0) m = 0; else if (k == 1) m = ~0ull;
  return mkf(t, rnd(), e, m); }

/* one vector argument; prev = previous vector argument of the same input set (for correlated inputs) */
static void gen_vec(Val* v, int bits, int fhint, const Val* prev) {
  memset(v, 0, 64);
  unsigned mode = rnd() % 16;
  if ((mode == 13 || mode == 14) && !prev) mode = 0;
  switch (mode) {
    case 0: case 1: rand_bits(v, bits); break;
    case 2: case 3: { int t = pick_t(fhint); for (int i = 0; i < bits / TBITS[t]; i++) set_lane(v, TBITS[t], i, edge_of(t, (unsigned)rnd())); break; }
    case 4: { int t = pick_t(fhint); bcast(v, bits, TBITS[t], edge_of(t, (unsigned)rnd())); break; }
    case 5: case 6: { int t = pick_ft(fhint); for (int i = 0; i < bits / TBITS[t]; i++) set_lane(v, TBITS[t], i, close_float(t)); break; }
    case 7: { int t = pick_ft(fhint); for (int i = 0; i < bits / TBITS[t]; i++) set_lane(v, TBITS[t], i, from_double(t, ((int)(rnd() % 4001) - 2000) / 4.0)); break; }
    case 8: { int t = pick_it(); for (int i = 0; i < bits / TBITS[t]; i++) set_lane(v, TBITS[t], i, rnd() % 71); break; }
    case 9: { rand_bits(v, bits); int dense = rnd() & 1; for (int i = 0; i < bits / 64; i++) { uint64_t x = get_lane(v, 64, i), y = rnd() & rnd(); set_lane(v, 64, i, dense ? (x | ~y) : (x & y)); } break; }
    case 10: { int t = pick_ft(fhint); for (int i = 0; i < bits / TBITS[t]; i++) set_lane(v, TBITS[t], i, boundary_float(t)); break; }
    case 11: { int t = pick_ft(fhint); for (int i = 0; i < bits / TBITS[t]; i++) set_lane(v, TBITS[t], i, extreme_float(t)); break; }
    case 12: { int t = pick_it(); uint64_t base = (rnd() & 1) ? 0 : rnd(); for (int i = 0; i < bits / TBITS[t]; i++) set_lane(v, TBITS[t], i, base + (uint64_t)i); break; }
    case 13: case 14: { *v = *prev; int t = pick_t(fhint); for (int i = 0; i < bits / TBITS[t]; i++) { unsigned k = rnd() % 12; uint64_t x = get_lane(v, TBITS[t], i);
        if (k == 0) x = rnd(); else if (k == 1) x ^= 1ull << (rnd() % TBITS[t]); else if (k == 2) x += 1; else if (k == 3) x -= 1; else if (k == 4) x = edge_of(t, (unsigned)rnd()); else if (k == 5) x ^= 1ull << (TBITS[t] - 1);
        set_lane(v, TBITS[t], i, x); } break; }
    default: { rand_bits(v, bits); int t = pick_t(fhint); for (int i = 0; i < bits / TBITS[t]; i++) if (rnd() % 3 == 0) set_lane(v, TBITS[t], i, edge_of(t, (unsigned)rnd())); break; }
  }
}
static void gen_count(Val* v) {
  memset(v, 0, 64);
  unsigned k = rnd() % 10; uint64_t c;
  if (k < 6) c = rnd() % 71; else if (k == 6) c = edge_of(T_I64, (unsigned)rnd()); else if (k == 7) c = rnd(); else if (k == 8) c = (rnd() % 71) | (rnd() << 32); else c = (rnd() % 71) | (1ull << (16 << (rnd() % 2)));
  set_lane(v, 64, 0, c); set_lane(v, 64, 1, (rnd() & 1) ? rnd() : 0);
}
static uint64_t maskbits(uint64_t x, int bits) { return bits >= 64 ? x : x & ((1ull << bits) - 1); }
static void gen_int(Val* v, int bits) {
  memset(v, 0, 64);
  unsigned k = rnd() % 8; uint64_t x;
  int t = bits == 8 ? T_I8 : bits == 16 ? T_I16 : bits == 32 ? T_I32 : T_I64;
  if (k < 2) x = edge_of(t, (unsigned)rnd()); else if (k == 2) x = rnd() % 71; else if (k == 3) x = rnd() >> (rnd() % 64); else if (k == 4) x = 1ull << (rnd() % bits); else if (k == 5) x = ~(rnd() >> (rnd() % 64)); else x = rnd();
  set_lane(v, 64, 0, maskbits(x, bits));
}
static void gen_k(Val* v, int bits) {
  memset(v, 0, 64);
  unsigned k = rnd() % 8; uint64_t x = k == 0 ? 0 : k == 1 ? ~0ull : k == 2 ? 1ull << (rnd() % bits) : rnd();
  set_lane(v, 64, 0, maskbits(x, bits));
}
static void gen_flt(Val* v, int bits) {
  memset(v, 0, 64);
  int t = bits == 32 ? T_F32 : T_F64; unsigned k = rnd() % 8; uint64_t x;
  if (k < 3) x = edge_of(t, (unsigned)rnd()); else if (k == 3) x = close_float(t); else if (k == 4) x = boundary_float(t); else if (k == 5) x = extreme_float(t); else x = rnd();
  set_lane(v, 64, 0, maskbits(x, bits));
}
static void gen_arg(const Test* T, int j, Val* in) {
  const Arg& a = T->args[j];
  switch (a.kind) {
    case 'V': { const Val* prev = 0; for (int p = j - 1; p >= 0; p--) if (T->args[p].kind == 'V' && T->args[p].bits == a.bits) { prev = &in[p]; break; } gen_vec(&in[j], a.bits, T->fhint, prev); break; }
    case 'C': gen_count(&in[j]); break;
    case 'I': gen_int(&in[j], a.bits); break;
    case 'K': gen_k(&in[j], a.bits); break;
    default: gen_flt(&in[j], a.bits); break;
  }
}
/* broadcast an edge value of lane type t into argument j (truncated for scalars) */
static void set_edge(const Test* T, int j, Val* in, int t, unsigned e) {
  const Arg& a = T->args[j];
  memset(&in[j], 0, 64);
  if (a.kind == 'V') bcast(&in[j], a.bits, TBITS[t], edge_of(t, e));
  else set_lane(&in[j], 64, 0, maskbits(edge_of(t, e), a.bits));
}

static std::string hexval(const Val* v, int bytes) {
  char buf[64]; std::string s;
  if (bytes <= 8) { uint64_t x = 0; memcpy(&x, v->b, bytes); snprintf(buf, sizeof buf, "0x%0*llx", bytes * 2, (unsigned long long)x); return buf; }
  for (int i = 0; i < bytes / 8; i++) { uint64_t x; memcpy(&x, v->b + 8 * i, 8); snprintf(buf, sizeof buf, "%s0x%016llx", i ? ":" : "", (unsigned long long)x); s += buf; }
  return s;
}
static std::string hexargs(const Test* T, const Val* in) {
  std::string s;
  for (int j = 0; j < T->nargs; j++) { if (j) s += ","; s += hexval(&in[j], (T->args[j].bits + 7) / 8); }
  return T->nargs ? s : "-";
}
static int is_nan_lane(uint64_t x, int b) { return b == 32 ? (x & 0x7fffffffu) > 0x7f800000u : (x & 0x7fffffffffffffffull) > 0x7ff0000000000000ull; }
/* 0 equal, 1 equal up to NaN payload/sign in float lanes, 2 different */
static int compare(const Test* T, const Val* m, const Val* r) {
  if (!memcmp(m->b, r->b, T->retbytes)) return 0;
  if (!T->retf) return 2;
  for (int i = 0; i < T->retbytes * 8 / T->retf; i++) {
    uint64_t x = get_lane(m, T->retf, i), y = get_lane(r, T->retf, i);
    if (x != y && !(is_nan_lane(x, T->retf) && is_nan_lane(y, T->retf))) return 2;
  }
  return 1;
}
/* first differing lane (granularity: the float lane size of the name, else 64 bits) with the matching input lanes */
static std::string lanediff(const Test* T, const Val* in, const Val* m, const Val* r, int c) {
  if (T->retbytes <= 8) return "";
  int lb = T->fhint ? T->fhint : 64; int n = T->retbytes * 8 / lb; char buf[96]; std::string s;
  for (int i = 0; i < n; i++) {
    uint64_t x = get_lane(m, lb, i), y = get_lane(r, lb, i);
    if (x == y) continue;
    if (c == 2 && T->retf && is_nan_lane(x, T->retf) && is_nan_lane(y, T->retf)) continue;
    snprintf(buf, sizeof buf, " difflane=%d/%db lane_in=", i, lb); s = buf;
    for (int j = 0; j < T->nargs; j++) {
      const Arg& a = T->args[j]; uint64_t v;
      if ((a.kind == 'V') && a.bits == T->retbytes * 8) v = get_lane(&in[j], lb, i);
      else if (a.kind == 'K') v = (get_lane(&in[j], 64, 0) >> i) & 1;
      else v = get_lane(&in[j], 64, 0);
      snprintf(buf, sizeof buf, "%s0x%llx", j ? "," : "", (unsigned long long)v); s += buf;
    }
    snprintf(buf, sizeof buf, " lane_model=0x%llx lane_real=0x%llx", (unsigned long long)x, (unsigned long long)y); s += buf;
    return s;
  }
  return "";
}
static const char* RMNAME[4] = {"nearest", "down", "up", "zero"};
static const int RMVAL[4] = {FE_TONEAREST, FE_DOWNWARD, FE_UPWARD, FE_TOWARDZERO};

struct Acc { long calls, bad, nand; std::string first_bad, first_nan; };
static inline void one(const Test* T, const Site* S, int rm, const Val* in, Acc* A) {
  if (T->flags & FL_NOZERO) { if (maskbits(get_lane(&in[0], 64, 0), T->args[0].bits) == 0) return; }
  Val om, orr;
  S->model(in, &om);
  S->real(in, &orr);
  A->calls++;
  int c = compare(T, &om, &orr);
  if (c == 0) return;
  std::string& dst = c == 2 ? A->first_bad : A->first_nan;
  if (c == 2) A->bad++; else A->nand++;
  if (dst.empty()) dst = std::string("imm=") + S->imm + " rm=" + RMNAME[rm] + " inputs=" + hexargs(T, in) + " model=" + hexval(&om, T->retbytes) + " real=" + hexval(&orr, T->retbytes) + lanediff(T, in, &om, &orr, c);
}
static void run_test(const Test* T, long N) {
  printf("BEGIN %s\n", T->name); fflush(stdout);
  uint64_t h = 1469598103934665603ull; for (const char* p = T->name; *p; p++) h = (h ^ (unsigned char)*p) * 1099511628211ull;
  rng_s = h;
  Acc A = {0, 0, 0, "", ""};
  avv_asserts = 0; avv_first_assert = 0;
  static Val in[80];
  int ntypes; int types[4];
  if (T->fhint == 32) { ntypes = 2; types[0] = T_F32; types[1] = T_I32; }
  else if (T->fhint == 64) { ntypes = 2; types[0] = T_F64; types[1] = T_I64; }
  else { ntypes = 4; types[0] = T_I8; types[1] = T_I16; types[2] = T_I32; types[3] = T_I64; }
  for (int s = 0; s < T->nsites; s++) {
    const Site* S = &T->sites[s];
    for (int rm = 0; rm < ((T->flags & FL_RM) ? 4 : 1); rm++) {
      fesetround(RMVAL[rm]);
      /* edge lattice: broadcast cross product over the first two data arguments, the others random */
      int d0 = -1, d1 = -1;
      for (int j = T->nargs - 1; j >= 0; j--) if (T->args[j].kind != 'K' || T->nargs <= 2) { if (d1 < 0) d1 = j; else if (d0 < 0) d0 = j; }
      if (d0 < 0) { d0 = d1; d1 = -1; }
      if (d0 < 0 && T->nargs) d0 = 0;
      for (int ti = 0; ti < ntypes && d0 >= 0; ti++) {
        int t = types[ti]; unsigned n = edge_n(t);
        for (unsigned e0 = 0; e0 < n; e0++) for (unsigned e1 = 0; e1 < (d1 >= 0 ? n : 1); e1++) {
          for (int j = 0; j < T->nargs; j++) { if (j == d0) set_edge(T, j, in, t, e0); else if (j == d1) set_edge(T, j, in, t, e1); else gen_arg(T, j, in); }
          one(T, S, rm, in, &A);
        }
      }
      if (T->nargs == 0) { one(T, S, rm, in, &A); continue; }
      for (long i = 0; i < N; i++) {
        for (int j = 0; j < T->nargs; j++) gen_arg(T, j, in);
        one(T, S, rm, in, &A);
      }
    }
  }
  fesetround(FE_TONEAREST);
  if (!A.first_nan.empty()) printf("NANDIFF %s %s count=%ld/%ld\n", T->name, A.first_nan.c_str(), A.nand, A.calls);
  if (A.bad) printf("MISMATCH %s %s count=%ld/%ld\n", T->name, A.first_bad.c_str(), A.bad, A.calls);
  else {
    printf("OK %s calls=%ld", T->name, A.calls);
    if (A.nand) printf(" nandiff=%ld", A.nand);
    if (avv_asserts) printf(" asserts=%ld(%s)", avv_asserts, avv_first_assert);
    printf("\n");
  }
  fflush(stdout);
}
static int run_all(const Test* tests, int ntests, int argc, char** argv) {
  long N = argc > 1 ? atol(argv[1]) : 20000;
  const char* skip = argc > 2 ? argv[2] : "";
  for (int i = 0; i < ntests; i++) {
    std::string key = std::string(",") + tests[i].name + ",";
    if (strstr(skip, key.c_str())) continue;
    run_test(&tests[i], N);
  }
  printf("DONE\n");
  return 0;
}
'''

CUSTOM = {
    'model_divq': (
        # both sides normalise the raw inputs the same way: v != 0, hi < v  (the model's precondition)
        'static void m_%(id)s(const Val* in, Val* out) { uint64_t hi, lo, v; memcpy(&hi, &in[0], 8); memcpy(&lo, &in[1], 8); memcpy(&v, &in[2], 8); if (!v) v = 1; hi %%= v;\n'
        '  uint64_t r[2]; r[0] = avmm_model_divq(hi, lo, v, &r[1]); put(out, r); }\n',
        'static void r_%(id)s(const Val* in, Val* out) { uint64_t hi, lo, v; memcpy(&hi, &in[0], 8); memcpy(&lo, &in[1], 8); memcpy(&v, &in[2], 8); if (!v) v = 1; hi %%= v;\n'
        '  unsigned __int128 n = ((unsigned __int128)hi << 64) | lo; uint64_t r[2]; r[0] = (uint64_t)(n / v); r[1] = (uint64_t)(n %% v); put(out, r); }\n'),
    'model_add_rcr64': (
        'static void m_%(id)s(const Val* in, Val* out) { uint64_t r = avmm_model_add_rcr64(Any{&in[0]}, Any{&in[1]}); put(out, r); }\n',
        'static void r_%(id)s(const Val* in, Val* out) { uint64_t a, b; memcpy(&a, &in[0], 8); memcpy(&b, &in[1], 8); uint64_t r = (uint64_t)(((unsigned __int128)a + b) >> 1); put(out, r); }\n'),
}


def model_text(m):
    return 'static inline %s avmm_%s(%s) {\n%s}\n' % (m.ret, m.name, ', '.join('%s %s' % a for a in m.args) or 'void', m.body)


def helper_text(specs):
    out, done = [], set()

    def add(h):
        if h in done:
            return
        done.add(h)
        for hh in gen_x86.HELPERS[h][1]:
            add(hh)
        out.append(gen_x86.HELPERS[h][0])
    for s in specs:
        for h in s.m.deps:
            add(h)
    return ''.join(out)


def gen_tu(specs, dropped_sites):
    """-> (text, linemap) ; linemap[line] = (spec index, site index or None)"""
    lines = []
    linemap = {}

    def emit(text, key):
        for ln in text.rstrip('\n').split('\n'):
            lines.append(ln)
            linemap[len(lines)] = key
    emit('#include "avv_driver.h"', None)
    emit(helper_text(specs), None)
    for k, s in enumerate(specs):
        emit(model_text(s.m), (k, None))
    tests = []
    for k, s in enumerate(specs):
        site_rows = []
        for si, site in enumerate(s.sites):
            if (s.name, si) in dropped_sites:
                continue
            ident = '%d_%d' % (k, si)
            if s.custom:
                mt, rt = CUSTOM[s.name]
                emit(mt % {'id': ident}, (k, si))
                emit(rt % {'id': ident}, (k, si))
            else:
                ca = s.call_args(site)
                emit('static void m_%s(const Val* in, Val* out) { %s r = avmm_%s(%s); put(out, r); }' % (ident, s.m.ret, s.name, ca), (k, si))
                if s.m.ret in VEC:
                    emit('static void r_%s(const Val* in, Val* out) { auto r = %s(%s); static_assert(sizeof(r) == %d, "result size differs from the model"); put(out, r); }'
                         % (ident, s.name, ca, s.retbytes), (k, si))
                else:
                    emit('static void r_%s(const Val* in, Val* out) { %s r = (%s)%s(%s); put(out, r); }' % (ident, s.m.ret, s.m.ret, s.name, ca), (k, si))
            site_rows.append('{"%s", m_%s, r_%s}' % (s.imm_str(site), ident, ident))
        if not site_rows:
            continue
        emit('static const Site sites_%d[] = {%s};' % (k, ', '.join(site_rows)), (k, None))
        emit('static const Arg args_%d[] = {%s};' % (k, ', '.join("{'%s', %d}" % a for a in s.args) or "{'I', 32}"), (k, None))
        tests.append('{"%s", %d, args_%d, %d, %d, %d, %d, %d, sites_%d}' % (s.name, len(s.args), k, s.retbytes, s.retf, s.fhint, s.flags, len(site_rows), k))
    emit('static const Test tests[] = {\n%s\n};' % ',\n'.join(tests or ['{"", 0, 0, 0, 0, 0, 0, 0, 0}']), None)
    emit('int main(int argc, char** argv) { return run_all(tests, %d, argc, argv); }' % len(tests), None)
    return '\n'.join(lines) + '\n', linemap


ERR_RE = re.compile(r'^(.*?):(\d+):(\d+): (?:fatal )?error: (.*)$')


def process_tu(idx, specs, workdir, n, log):
    """generate, compile (dropping what the compiler rejects), run; -> dict(results={name: (status, detail)})"""
    res = {}
    src = os.path.join(workdir, 'tu%03d.cpp' % idx)
    exe = os.path.join(workdir, 'tu%03d' % idx)
    dropped_sites = set()
    site_notes = {}
    live = list(specs)
    env = dict(os.environ, TMPDIR=workdir)
    for attempt in range(6):
        text, linemap = gen_tu(live, dropped_sites)
        with open(src, 'w') as f:
            f.write(text)
        p = subprocess.run([CXX] + CXXFLAGS + ['-I', workdir, '-fsyntax-only', src], capture_output=True, text=True, env=env)
        if p.returncode == 0:
            break
        bad_names = {}
        unmapped = []
        for ln in p.stderr.split('\n'):
            mm = ERR_RE.match(ln)
            if not mm:
                continue
            fn, line, msg = mm.group(1), int(mm.group(2)), mm.group(4)
            key = linemap.get(line) if os.path.abspath(fn) == src else None
            if key is None:
                unmapped.append(ln)
                continue
            k, si = key
            s = live[k]
            if si is not None and 'outside the valid range' in msg:
                dropped_sites.add((s.name, si))
                site_notes.setdefault(s.name, []).append(s.imm_str(s.sites[si]))
            else:
                bad_names.setdefault(s.name, msg)
        if unmapped and not bad_names and not dropped_sites:
            for s in live:
                res[s.name] = ('SKIP', 'translation unit does not compile: ' + unmapped[0][:300])
            return res
        for name, msg in bad_names.items():
            res[name] = ('SKIP', 'compiler rejects the call: ' + msg[:300])
        live = [s for s in live if s.name not in bad_names]
        for s in list(live):
            if all((s.name, si) in dropped_sites for si in range(len(s.sites))):
                res[s.name] = ('SKIP', 'every immediate value rejected by the compiler')
                live.remove(s)
    else:
        for s in live:
            res[s.name] = ('SKIP', 'translation unit still does not compile after pruning')
        return res
    if not live:
        return res
    t0 = time.time()
    p = subprocess.run([CXX] + CXXFLAGS + ['-I', workdir, src, '-o', exe, '-lm'], capture_output=True, text=True, env=env)
    if p.returncode != 0:
        for s in live:
            res[s.name] = ('SKIP', 'compile/link failure: ' + (p.stderr.strip().split('\n') or ['?'])[0][:300])
        return res
    t1 = time.time()
    skip = []
    for attempt in range(len(live) + 1):
        p = subprocess.run([exe, str(n), ',' + ','.join(skip) + ','], capture_output=True, text=True, env=env)
        current = None
        for ln in p.stdout.split('\n'):
            w = ln.split(' ', 2)
            if w[0] == 'BEGIN':
                current = w[1]
            elif w[0] in ('OK', 'MISMATCH'):
                res[w[1]] = (w[0], w[2] if len(w) > 2 else '')
                current = None
            elif w[0] == 'NANDIFF':
                res['NANDIFF ' + w[1]] = ('NANDIFF', w[2])
        if p.returncode == 0 and 'DONE' in p.stdout:
            break
        if current is None:
            for s in live:
                res.setdefault(s.name, ('SKIP', 'test program failed (exit %d) %s' % (p.returncode, p.stderr[:200])))
            break
        res[current] = ('SKIP', 'test program died with signal %d in this test' % -p.returncode)
        skip.append(current)
    for s in live:
        res.setdefault(s.name, ('SKIP', 'no result line produced'))
        if s.name in site_notes and res[s.name][0] in ('OK', 'MISMATCH'):
            st, d = res[s.name]
            res[s.name] = (st, d + ' rejected_imm=[%s]' % ';'.join(site_notes[s.name]))
    log('tu%03d: %d names, %d sites, compile %.1fs, run %.1fs' % (idx, len(live), sum(len(s.sites) for s in live), t1 - t0, time.time() - t1))
    return res


def main():
    ap = argparse.ArgumentParser(description=__doc__, formatter_class=argparse.RawDescriptionHelpFormatter)
    ap.add_argument('names', nargs='?', default='/root/scratch/externs2.txt', help='file with one intrinsic name per line')
    ap.add_argument('--n', type=int, default=20000, help='random inputs per call site (and per rounding mode)')
    ap.add_argument('--json', help='write a JSON summary here')
    ap.add_argument('--keep', action='store_true', help='keep the scratch directory')
    ap.add_argument('--jobs', type=int, default=os.cpu_count() or 4)
    ap.add_argument('--per-tu', type=int, default=60, help='max names per translation unit')
    ap.add_argument('--only', help='regular expression: validate only matching names')
    ap.add_argument('-v', '--verbose', action='store_true')
    ap.add_argument('--gen-x86', default=os.path.join(HERE, 'gen_x86.py'), help='model generator to validate (default: the one next to this script)')
    a = ap.parse_args()
    load_gen(a.gen_x86)

    names = []
    for n in open(a.names).read().split():
        if n not in names:
            names.append(n)
    if a.only:
        names = [n for n in names if re.search(a.only, n)]
    skipped, specs, excluded = [], [], {'mem': [], 'novalidate': []}
    for n in names:
        m = gen_x86.model_for(n)
        if m is None:
            skipped.append((n, 'no model'))
        elif m.mem:
            excluded['mem'].append(n)
        elif m.novalidate:
            excluded['novalidate'].append(n)
        else:
            try:
                specs.append(Spec(n, m))
            except ValueError as e:
                skipped.append((n, str(e)))

    # pack into translation units: bounded by name count and by call-site cost
    total = sum(s.cost() for s in specs)
    budget = max(200, total // max(1, 2 * a.jobs))
    tus, cur, c = [], [], 0
    for s in sorted(specs, key=lambda s: -s.cost()):
        if cur and (len(cur) >= a.per_tu or c + s.cost() > budget):
            tus.append(cur)
            cur, c = [], 0
        cur.append(s)
        c += s.cost()
    if cur:
        tus.append(cur)

    os.makedirs(SCRATCH_ROOT, exist_ok=True)
    workdir = tempfile.mkdtemp(prefix='validate-', dir=SCRATCH_ROOT)
    results = {}
    t0 = time.time()

    def log(msg):
        if a.verbose:
            print('# ' + msg, file=sys.stderr, flush=True)
    try:
        with open(os.path.join(workdir, 'avv_driver.h'), 'w') as f:
            f.write(DRIVER)
        log('%d names to validate, %d call sites, %d translation units, scratch %s' % (len(specs), sum(len(s.sites) for s in specs), len(tus), workdir))
        with concurrent.futures.ThreadPoolExecutor(max_workers=a.jobs) as ex:
            futs = [ex.submit(process_tu, i, tu, workdir, a.n, log) for i, tu in enumerate(tus)]
            for f in futs:
                results.update(f.result())
    finally:
        if a.keep:
            print('# scratch kept: ' + workdir, file=sys.stderr)
        else:
            shutil.rmtree(workdir, ignore_errors=True)

    validated, mismatch = [], []
    for s in sorted(specs, key=lambda s: s.name):
        st, d = results.get(s.name, ('SKIP', 'no result'))
        nd = results.get('NANDIFF ' + s.name)
        if nd:
            print('NANDIFF %s %s' % (s.name, nd[1]))
        if st == 'OK':
            validated.append(s.name)
            print('OK %s %s' % (s.name, d))
        elif st == 'MISMATCH':
            mismatch.append({'name': s.name, 'detail': d})
            print('MISMATCH %s %s' % (s.name, d))
        else:
            skipped.append((s.name, d))
    for n, r in sorted(skipped):
        print('SKIP %s %s' % (n, r))
    log('excluded (memory models): %d, excluded (novalidate): %d, wall time %.1fs' % (len(excluded['mem']), len(excluded['novalidate']), time.time() - t0))
    print('validated=%d mismatches=%d skipped=%d' % (len(validated), len(mismatch), len(skipped)))
    if a.json:
        with open(a.json, 'w') as f:
            json.dump({'validated': validated, 'mismatch': mismatch, 'skipped': [{'name': n, 'reason': r} for n, r in sorted(skipped)],
                       'nandiff': [{'name': k[8:], 'detail': v[1]} for k, v in sorted(results.items()) if k.startswith('NANDIFF ')],
                       'excluded': excluded, 'n': a.n}, f, indent=1)
    return 1 if mismatch else 0


if __name__ == '__main__':
    sys.exit(main())
