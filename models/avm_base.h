/* avm_base.h -- base definitions shared by every extracted translation unit (CBMC side).
 * Part of the TRUSTED base: register representation, lane access macros, the C++ signed-shift rule,
 * bit casts, nondeterministic (indeterminate) values. */
#ifndef AVM_BASE_H
#define AVM_BASE_H
#include <stdint.h>
#include <stddef.h>

typedef struct m128 { uint64_t q[2]; } m128;
typedef struct m256 { uint64_t q[4]; } m256;
typedef struct m512 { uint64_t q[8]; } m512;

/* lane views (little endian within the register, as on x86) */
#define AVM_L64(v,i) ((v).q[(i)])
#define AVM_L32(v,i) ((uint32_t)((v).q[(i)>>1] >> (((i)&1)*32)))
#define AVM_L16(v,i) ((uint16_t)((v).q[(i)>>2] >> (((i)&3)*16)))
#define AVM_L8(v,i)  ((uint8_t)((v).q[(i)>>3] >> (((i)&7)*8)))

/* lane stores (read-modify-write of the containing 64-bit word) */
#define AVM_S64(r,i,x) ((r).q[(i)] = (uint64_t)(x))
#define AVM_S32(r,i,x) ((r).q[(i)>>1] = ((r).q[(i)>>1] & ~(0xffffffffull << (((i)&1)*32))) | ((uint64_t)(uint32_t)(x) << (((i)&1)*32)))
#define AVM_S16(r,i,x) ((r).q[(i)>>2] = ((r).q[(i)>>2] & ~(0xffffull << (((i)&3)*16))) | ((uint64_t)(uint16_t)(x) << (((i)&3)*16)))
#define AVM_S8(r,i,x)  ((r).q[(i)>>3] = ((r).q[(i)>>3] & ~(0xffull << (((i)&7)*8))) | ((uint64_t)(uint8_t)(x) << (((i)&7)*8)))

/* Signed E1 << E2.  The shift AMOUNT must be in range on every compiler (checked).  A negative E1 or a
 * result that does not fit is formally undefined before C++20, but GCC and Clang -- the only compilers
 * the x86 branches of AVEL accept -- document signed << as the two's-complement operation ("GCC does not
 * use the latitude given in C99 and C11 only to treat certain aspects of signed '<<' as undefined"), and
 * C++20 defines it so.  Demanding more would raise alarms on code whose behaviour is defined where it can
 * be compiled, so the model computes the modular result and checks only the amount.  (CBMC's own check on
 * a native signed shift follows C99 and would flag 1 << 31.) */
static inline int32_t AVM_SHL_S32(int32_t a, long long s) {
  __CPROVER_assert(s >= 0 && s < 32, "shift amount out of range (signed 32-bit <<)");
  return (int32_t)((uint32_t)a << s);
}
static inline int64_t AVM_SHL_S64(int64_t a, long long s) {
  __CPROVER_assert(s >= 0 && s < 64, "shift amount out of range (signed 64-bit <<)");
  return (int64_t)((uint64_t)a << s);
}
/* promoted operands are at least int, so 8/16-bit forms never occur; kept for completeness */
#define AVM_SHL_S8(a,s)  ((int8_t)AVM_SHL_S32((int32_t)(a),(s)))
#define AVM_SHL_S16(a,s) ((int16_t)AVM_SHL_S32((int32_t)(a),(s)))

#define AVM_BITCAST(T,S,x) (((union { S s; T d; }){ .s = (x) }).d)
#define AVM_UNINIT(T) nondet_##T()

static inline float  avm_u2f(uint32_t u) { union { uint32_t u; float f; } c; c.u = u; return c.f; }
static inline double avm_u2d(uint64_t u) { union { uint64_t u; double f; } c; c.u = u; return c.f; }
static inline uint32_t avm_f2u(float f)  { union { uint32_t u; float f; } c; c.f = f; return c.u; }
static inline uint64_t avm_d2u(double f) { union { uint64_t u; double f; } c; c.f = f; return c.u; }

typedef struct { long long avm_ll; long double avm_ld; } avm_max_align_t;     /* sizeof == 32, alignof == 16 on x86-64, like std::max_align_t of libstdc++ / libc++ */
/* placement new of a scalar object: the storage must be suitably aligned for T ([basic.align]; UBSan: misaligned address) */
extern size_t avm_base_mod;
void* avm_blk_base;   /* ghost: base address of the block handed to deallocate (what the allocator must free) */
#define AVM_PLACEMENT_NEW(T, p, v) (__CPROVER_assert((avm_base_mod + (size_t)__CPROVER_POINTER_OFFSET(p)) % _Alignof(T) == 0, "placement new: storage not aligned for " #T), *(T*)(p) = (v), (T*)(p))

/* Integer division.  Default: the C operator (CBMC's division-by-zero / overflow checks apply).  With AVM_DIV_UF the
 * divide instruction is an uninterpreted, functionally consistent operation with explicit definedness checks: used
 * where a function merely routes operands to the hardware divider (a 32/64-bit divider circuit is beyond SAT even
 * against an identical copy of itself); the spec functions switch with the same macro. */
#if defined(AVM_DIV_UF) && !defined(AVM_NATIVE)
uint32_t __CPROVER_uninterpreted_div_u32(uint32_t, uint32_t); uint32_t __CPROVER_uninterpreted_rem_u32(uint32_t, uint32_t);
uint64_t __CPROVER_uninterpreted_div_u64(uint64_t, uint64_t); uint64_t __CPROVER_uninterpreted_rem_u64(uint64_t, uint64_t);
int32_t __CPROVER_uninterpreted_div_i32(int32_t, int32_t); int32_t __CPROVER_uninterpreted_rem_i32(int32_t, int32_t);
int64_t __CPROVER_uninterpreted_div_i64(int64_t, int64_t); int64_t __CPROVER_uninterpreted_rem_i64(int64_t, int64_t);
/* the only facts about the uninterpreted divide instruction that proofs may use: |a / b| <= |a|, |a % b| < |b|, and for the
 * unsigned 64-bit divider  a < b * 2^32  =>  a / b < 2^32  (in the form (a >> 32) < b, the 64-by-32-bit no-overflow condition) */
#define AVM_MAG(x) ((x) < 0 ? (uint64_t)0 - (uint64_t)(x) : (uint64_t)(x))
#define AVM_DIVDEF(T, S, MINV, SG) \
  static inline T AVM_DIV_##S(T a, T b) { __CPROVER_assert(b != 0, "division by zero"); \
    if (SG) __CPROVER_assert(!(a == MINV && b == (T)-1), "signed division overflow (MIN / -1)"); \
    T q = __CPROVER_uninterpreted_div_##S(a, b); __CPROVER_assume(AVM_MAG(q) <= AVM_MAG(a)); \
    if (!(SG) && sizeof(T) == 8) __CPROVER_assume(((uint64_t)a >> 32) >= (uint64_t)b || (uint64_t)q <= 0xffffffffull); return q; } \
  static inline T AVM_REM_##S(T a, T b) { __CPROVER_assert(b != 0, "division by zero"); \
    if (SG) __CPROVER_assert(!(a == MINV && b == (T)-1), "signed division overflow (MIN % -1)"); \
    T r = __CPROVER_uninterpreted_rem_##S(a, b); __CPROVER_assume(AVM_MAG(r) < AVM_MAG(b)); return r; }
AVM_DIVDEF(uint32_t, u32, 0, 0) AVM_DIVDEF(uint64_t, u64, 0, 0)
AVM_DIVDEF(int32_t, i32, (-2147483647 - 1), 1) AVM_DIVDEF(int64_t, i64, (-9223372036854775807ll - 1), 1)
#else
#define AVM_DIV_u32(a, b) ((uint32_t)(a) / (uint32_t)(b))
#define AVM_REM_u32(a, b) ((uint32_t)(a) % (uint32_t)(b))
#define AVM_DIV_u64(a, b) ((uint64_t)(a) / (uint64_t)(b))
#define AVM_REM_u64(a, b) ((uint64_t)(a) % (uint64_t)(b))
#define AVM_DIV_i32(a, b) ((int32_t)(a) / (int32_t)(b))
#define AVM_REM_i32(a, b) ((int32_t)(a) % (int32_t)(b))
#define AVM_DIV_i64(a, b) ((int64_t)(a) / (int64_t)(b))
#define AVM_REM_i64(a, b) ((int64_t)(a) % (int64_t)(b))
#endif

/* Integer multiplication of the extracted code: the C operator by default; an uninterpreted symbol with AVM_MUL_UF (used by
 * the Granlund-Montgomery code-level contracts, where code and specification contain the same 64-bit products). */
#if defined(AVM_MUL_UF) && !defined(AVM_NATIVE)
uint32_t __CPROVER_uninterpreted_mul_u32(uint32_t, uint32_t); uint64_t __CPROVER_uninterpreted_mul_u64(uint64_t, uint64_t);
unsigned __int128 __CPROVER_uninterpreted_mul_u128(unsigned __int128, unsigned __int128);
#define AVM_MUL_u128(a, b) __CPROVER_uninterpreted_mul_u128((unsigned __int128)(a), (unsigned __int128)(b))
#define AVM_MUL_u32(a, b) __CPROVER_uninterpreted_mul_u32((uint32_t)(a), (uint32_t)(b))
#define AVM_MUL_u64(a, b) __CPROVER_uninterpreted_mul_u64((uint64_t)(a), (uint64_t)(b))
int32_t __CPROVER_uninterpreted_mul_i32(int32_t, int32_t); int64_t __CPROVER_uninterpreted_mul_i64(int64_t, int64_t);
__int128 __CPROVER_uninterpreted_mul_i128(__int128, __int128);
#define AVM_MUL_i32(a, b) __CPROVER_uninterpreted_mul_i32((int32_t)(a), (int32_t)(b))
#define AVM_MUL_i64(a, b) __CPROVER_uninterpreted_mul_i64((int64_t)(a), (int64_t)(b))
#define AVM_MUL_i128(a, b) __CPROVER_uninterpreted_mul_i128((__int128)(a), (__int128)(b))
#else
#define AVM_MUL_i128(a, b) ((__int128)(a) * (__int128)(b))
#define AVM_MUL_u128(a, b) ((unsigned __int128)(a) * (unsigned __int128)(b))
#define AVM_MUL_u32(a, b) ((uint32_t)(a) * (uint32_t)(b))
#define AVM_MUL_u64(a, b) ((uint64_t)(a) * (uint64_t)(b))
#define AVM_MUL_i32(a, b) ((int32_t)(a) * (int32_t)(b))
#define AVM_MUL_i64(a, b) ((int64_t)(a) * (int64_t)(b))
#endif

/* MXCSR apart from the rounding-control field, which lives in __CPROVER_rounding_mode (same encoding) */
unsigned int model_mxcsr = 0x1f80u;

/* Float + - * /.  Default: the C operator in CBMC's IEEE theory.  With AVM_FP_UF the FPU operation
 * is an uninterpreted symbol of (operands, rounding mode): used by the C10 routing proofs of * and /, where a bit-exact
 * multiplier / divider under four rounding modes per lane costs minutes per function for no additional insight. */
#if defined(AVM_FP_UF) && !defined(AVM_NATIVE)
float __CPROVER_uninterpreted_fmul32(float, float, int); float __CPROVER_uninterpreted_fdiv32(float, float, int);
double __CPROVER_uninterpreted_fmul64(double, double, int); double __CPROVER_uninterpreted_fdiv64(double, double, int);
float __CPROVER_uninterpreted_fadd32(float, float, int); float __CPROVER_uninterpreted_fsub32(float, float, int);
double __CPROVER_uninterpreted_fadd64(double, double, int); double __CPROVER_uninterpreted_fsub64(double, double, int);
#define AVM_FADD_f32(a, b) __CPROVER_uninterpreted_fadd32((a), (b), __CPROVER_rounding_mode)
#define AVM_FSUB_f32(a, b) __CPROVER_uninterpreted_fsub32((a), (b), __CPROVER_rounding_mode)
#define AVM_FADD_f64(a, b) __CPROVER_uninterpreted_fadd64((a), (b), __CPROVER_rounding_mode)
#define AVM_FSUB_f64(a, b) __CPROVER_uninterpreted_fsub64((a), (b), __CPROVER_rounding_mode)
#define AVM_FMUL_f32(a, b) __CPROVER_uninterpreted_fmul32((a), (b), __CPROVER_rounding_mode)
#define AVM_FDIV_f32(a, b) __CPROVER_uninterpreted_fdiv32((a), (b), __CPROVER_rounding_mode)
#define AVM_FMUL_f64(a, b) __CPROVER_uninterpreted_fmul64((a), (b), __CPROVER_rounding_mode)
#define AVM_FDIV_f64(a, b) __CPROVER_uninterpreted_fdiv64((a), (b), __CPROVER_rounding_mode)
#else
#define AVM_FADD_f32(a, b) ((float)(a) + (float)(b))
#define AVM_FSUB_f32(a, b) ((float)(a) - (float)(b))
#define AVM_FADD_f64(a, b) ((double)(a) + (double)(b))
#define AVM_FSUB_f64(a, b) ((double)(a) - (double)(b))
#define AVM_FMUL_f32(a, b) ((float)(a) * (float)(b))
#define AVM_FDIV_f32(a, b) ((float)(a) / (float)(b))
#define AVM_FMUL_f64(a, b) ((double)(a) * (double)(b))
#define AVM_FDIV_f64(a, b) ((double)(a) / (double)(b))
#endif

/* IEEE square root: an uninterpreted (functionally consistent) symbol under CBMC -- what is proved is that each lane
 * is routed to the square-root operation of the right operand; that the FPU's result is correctly rounded is assumed */
#ifdef AVM_NATIVE
#include <math.h>
static inline float avm_sqrtf(float x) { return sqrtf(x); }
static inline double avm_sqrt(double x) { return sqrt(x); }
#include <fenv.h>
static inline int avm_fe_of(int rc) { return rc == 0 ? FE_TONEAREST : rc == 1 ? FE_DOWNWARD : rc == 2 ? FE_UPWARD : FE_TOWARDZERO; }
static inline float avm_sqrtf_er(float x, int r) { if (r & 4) return sqrtf(x); int o = fegetround(); fesetround(avm_fe_of(r & 3)); volatile float vx = x; float y = sqrtf(vx); fesetround(o); return y; }
static inline double avm_sqrt_er(double x, int r) { if (r & 4) return sqrt(x); int o = fegetround(); fesetround(avm_fe_of(r & 3)); volatile double vx = x; double y = sqrt(vx); fesetround(o); return y; }
#else
float __CPROVER_uninterpreted_sqrtf(float, int);
double __CPROVER_uninterpreted_sqrt(double, int);
static inline float avm_sqrtf(float x) { return __CPROVER_uninterpreted_sqrtf(x, __CPROVER_rounding_mode); }
static inline double avm_sqrt(double x) { return __CPROVER_uninterpreted_sqrt(x, __CPROVER_rounding_mode); }
/* embedded-rounding forms ({er}: _MM_FROUND_CUR_DIRECTION = 4 -> MXCSR.RC, otherwise the static mode in bits 1:0) */
static inline float avm_sqrtf_er(float x, int r) { return __CPROVER_uninterpreted_sqrtf(x, (r & 4) ? __CPROVER_rounding_mode : (r & 3)); }
static inline double avm_sqrt_er(double x, int r) { return __CPROVER_uninterpreted_sqrt(x, (r & 4) ? __CPROVER_rounding_mode : (r & 3)); }
#endif

/* embedded rounding {er} of add / sub / mul / div / convert: _MM_FROUND_CUR_DIRECTION (bit 2) keeps MXCSR.RC, otherwise the static
 * mode in bits 1:0 applies to this one instruction.  The model switches the rounding mode for the operation and restores it (every
 * contract's frame lists __CPROVER_rounding_mode and its post-condition demands the value found on entry). */
#ifdef AVM_NATIVE
#define AVM_VOL volatile
static inline int avm_er_enter(int r) { int o = fegetround(); if (!(r & 4)) fesetround(avm_fe_of(r & 3)); return o; }
static inline void avm_er_leave(int o) { fesetround(o); }
#else
#define AVM_VOL
static inline int avm_er_enter(int r) { int o = __CPROVER_rounding_mode; if (!(r & 4)) __CPROVER_rounding_mode = r & 3; return o; }
static inline void avm_er_leave(int o) { __CPROVER_rounding_mode = o; }
#endif

/* ghost: number of elements of the object handed to gather / scatter (set by the harness, read by the contract) */
size_t avm_len;
/* ghost: address of the harness-owned memory object modulo 64.  CBMC objects have no addresses, so alignment-requiring
 * instructions (movdqa/movaps, aligned masked moves) check (base address mod 64 + offset) of that object; the harness of
 * an UNALIGNED load/store/gather/scatter leaves the base misaligned by any multiple of the element size, the harness of an
 * aligned_* form sets it to 0.  Other objects (alignas-declared locals) are taken to be suitably aligned. */
const void* avm_mem_obj;
size_t avm_mem_mod;
#define AVM_ADDR_MOD(p) (((avm_mem_obj != 0 && __CPROVER_same_object((const void*)(p), avm_mem_obj)) ? avm_mem_mod : (size_t)0) + (size_t)__CPROVER_POINTER_OFFSET(p))

_Bool nondet_bool(void); uint8_t nondet_u8(void); uint16_t nondet_u16(void); uint32_t nondet_u32(void); uint64_t nondet_u64(void);
int8_t nondet_i8(void); int16_t nondet_i16(void); int32_t nondet_i32(void); int64_t nondet_i64(void);
float nondet_f32(void); double nondet_f64(void); size_t nondet_sz(void);
#endif
