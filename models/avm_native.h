/* avm_native.h -- native (g++) view of avm_base.h for the replay harness and the model validation */
#ifndef AVM_NATIVE_H
#define AVM_NATIVE_H
#include <stdio.h>
#include <stdbool.h>
static int avm_native_assert_failures = 0;
#define __CPROVER_assert(c, msg) do { if (!(c)) { printf("ASSERT FAILED: %s\n", msg); avm_native_assert_failures++; } } while (0)
#include "avm_base.h"

/* conversion helper that contracts name (the model header defines the same function for CBMC) */
static inline uint32_t avm_cvtt_f64_u32(double f) {
  if (!(f > -1.0 && f < 4294967296.0)) return 0xffffffffu;
  return (uint32_t)f;
}
#endif
