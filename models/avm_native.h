/* avm_native.h -- native (g++) view of avm_base.h for the replay harness and the model validation */
#ifndef AVM_NATIVE_H
#define AVM_NATIVE_H
#include <stdio.h>
#include <stdbool.h>
static int avm_native_assert_failures = 0;
#define __CPROVER_assert(c, msg) do { if (!(c)) { printf("ASSERT FAILED: %s\n", msg); avm_native_assert_failures++; } } while (0)
#include "avm_base.h"
#endif
